(** C10: the rule-manager model refines the reference map; C11 (identity part): reloading
    Eq-equal rules keeps the controller objects. *)
From SV Require Import Model.Base Model.Manager Spec.C10Spec Run.Common Run.RunMgr Run.RunC10.
From Coq Require Import Permutation ZifyBool ZifyN ZifyNat.
Open Scope N_scope.

(** class of the rule of a controller *)
Definition cls (c : ctl) : N := class_of (c_rule c).

Definition NoDupClasses (old : list ctl) : Prop := NoDup (map (fun c => class_of (c_rule c)) old).

(** * small list lemmas *)

Lemma forallb_ext' {A} (p q : A -> bool) l :
  (forall x, p x = q x) -> forallb p l = forallb q l.
Proof. intros H; induction l as [|x tl IH]; cbn [forallb]; [reflexivity|]. rewrite H, IH; reflexivity. Qed.

Lemma filter_and {A} (p q : A -> bool) l :
  filter (fun x => p x && q x) l = filter q (filter p l).
Proof.
  induction l as [|x tl IH]; cbn [filter]; [reflexivity|].
  destruct (p x); cbn [andb filter]; [destruct (q x)|]; rewrite IH; reflexivity.
Qed.

Lemma remove_nth_app {A} (l1 : list A) x l2 : remove_nth (length l1) (l1 ++ x :: l2) = l1 ++ l2.
Proof. induction l1 as [|y tl IH]; cbn [length app remove_nth]; [reflexivity|]. rewrite IH; reflexivity. Qed.

Lemma classes_ext l1 l2 : map class_of l1 = map class_of l2 -> classes l1 = classes l2.
Proof. unfold classes; intros ->; reflexivity. Qed.

(** * rule equality and classes *)

Lemma rule_eqb_class a b : rule_eqb a b = true -> class_of a = class_of b.
Proof. unfold rule_eqb, class_of; intros H. lia. Qed.

(** * calculate_reuse_index_for *)

Lemma reuse_index_some r old : forall i reuse j x,
  reuse_index r old i reuse = (Some j, x) ->
  exists c, nth_error old (j - i) = Some c /\ rule_eqb (c_rule c) r = true /\ (i <= j)%nat.
Proof.
  induction old as [|c tl IH]; intros i reuse j x H; cbn [reuse_index] in H; [discriminate|].
  destruct (rule_eqb (c_rule c) r) eqn:E.
  - inversion H; subst. exists c. rewrite Nat.sub_diag. cbn [nth_error]. auto.
  - apply IH in H. destruct H as (c' & Hn & He & Hle). exists c'.
    replace (j - i)%nat with (S (j - S i)) by lia. cbn [nth_error]. repeat split; auto; lia.
Qed.

Lemma reuse_index_none r old : forall i reuse x,
  reuse_index r old i reuse = (None, x) -> forall c, In c old -> rule_eqb (c_rule c) r = false.
Proof.
  induction old as [|c tl IH]; intros i reuse x H c' Hin; cbn [reuse_index] in H; [destruct Hin|].
  destruct (rule_eqb (c_rule c) r) eqn:E; [discriminate|].
  destruct Hin as [<-|Hin]; [exact E|]. eapply IH; eauto.
Qed.

Lemma reuse_index_reuse r old : forall i reuse j x,
  reuse_index r old i reuse = (x, Some j) ->
  reuse = Some j \/ (i <= j < i + length old)%nat.
Proof.
  induction old as [|c tl IH]; intros i reuse j x H; cbn [reuse_index] in H.
  - inversion H; auto.
  - destruct (rule_eqb (c_rule c) r).
    + inversion H; auto.
    + apply IH in H. cbn [length]. destruct H as [H|H]; [|right; lia].
      destruct reuse as [k|]; [left; exact H|].
      destruct (stat_reusable (c_rule c) r); [|discriminate].
      inversion H; subst. right; lia.
Qed.

(** * build: one controller per processed rule, with an Eq-equal rule *)

Lemma build_classes res : forall rules old next nw rest nx,
  build res rules old next = (nw, rest, nx) ->
  map cls nw = map class_of (filter (fun r => r_res r =? res) rules).
Proof.
  induction rules as [|r tl IH]; intros old next nw rest nx H; cbn [build filter] in *.
  - inversion H; reflexivity.
  - destruct (r_res r =? res) eqn:E; cbn [negb] in H; [|eapply IH; eauto].
    destruct (reuse_index r old 0 None) as [[i|] [j|]] eqn:RI.
    + apply reuse_index_some in RI. destruct RI as (c & Hn & He & _).
      rewrite Nat.sub_0_r in Hn. rewrite Hn in H.
      destruct (build res tl (remove_nth i old) next) as [[nw' old'] nx'] eqn:B.
      inversion H; subst. cbn [map]. f_equal; [apply rule_eqb_class; exact He | eapply IH; eauto].
    + apply reuse_index_some in RI. destruct RI as (c & Hn & He & _).
      rewrite Nat.sub_0_r in Hn. rewrite Hn in H.
      destruct (build res tl (remove_nth i old) next) as [[nw' old'] nx'] eqn:B.
      inversion H; subst. cbn [map]. f_equal; [apply rule_eqb_class; exact He | eapply IH; eauto].
    + apply reuse_index_reuse in RI. destruct RI as [RI|RI]; [discriminate|].
      destruct (nth_error old j) as [c|] eqn:Hn; [|apply nth_error_None in Hn; lia].
      destruct (build res tl (remove_nth j old) (next + 1)) as [[nw' old'] nx'] eqn:B.
      inversion H; subst. cbn [map]. f_equal; eapply IH; eauto.
    + destruct (build res tl old (next + 2)) as [[nw' old'] nx'] eqn:B.
      inversion H; subst. cbn [map]. f_equal; eapply IH; eauto.
Qed.

(** * build_all *)

Definition X (rs : list rule) (k : N) : list N :=
  map class_of (filter (fun r => r_res r =? k) (valid_of (group rs k))).
Definition Good (rs : list rule) (acc : cmap) (k : N) : Prop := map cls (acc k) = X rs k.
Definition Weak (rs : list rule) (acc : cmap) : Prop := forall k, acc k = [] \/ Good rs acc k.

Lemma upd_good rs acc k nw :
  Weak rs acc -> map cls nw = X rs k ->
  let acc1 := match nw with [] => acc | _ => set_map acc k nw end in
  Weak rs acc1 /\ Good rs acc1 k /\ (forall k', Good rs acc k' -> Good rs acc1 k').
Proof.
  intros W HX. destruct nw as [|c l]; cbn zeta.
  - repeat split; auto. destruct (W k) as [E|G]; [|exact G].
    unfold Good. rewrite E. exact HX.
  - assert (Gk : Good rs (set_map acc k (c :: l)) k).
    { unfold Good, set_map. rewrite N.eqb_refl. exact HX. }
    repeat split; auto.
    + intros k'. destruct (k' =? k) eqn:E.
      * apply N.eqb_eq in E; subst. right; exact Gk.
      * destruct (W k') as [E'|G]; [left|right]; unfold Good, set_map in *; rewrite E; auto.
    + intros k' G. destruct (k' =? k) eqn:E.
      * apply N.eqb_eq in E; subst. exact Gk.
      * unfold Good, set_map in *; rewrite E; auto.
Qed.

Lemma build_all_spec rs live : forall ks next acc acc' nx,
  Weak rs acc ->
  build_all ks rs live next acc = (acc', nx) ->
  Weak rs acc' /\ (forall k, Good rs acc k -> Good rs acc' k) /\ (forall k, In k ks -> Good rs acc' k).
Proof.
  induction ks as [|k tl IH]; intros next acc acc' nx W H; cbn [build_all] in H.
  - inversion H; subst. repeat split; auto. intros k [].
  - destruct (valid_of (group rs k)) as [|r0 vl] eqn:V.
    + destruct (IH _ _ _ _ W H) as (W' & M & G). repeat split; auto.
      intros k' [<-|Hin]; [|auto]. apply M.
      destruct (W k) as [E|Gk]; [|exact Gk]. unfold Good, X. rewrite E, V. reflexivity.
    + destruct (build k (r0 :: vl) (live k) next) as [[nw rest] nx1] eqn:B.
      apply build_classes in B.
      assert (HX : map cls nw = X rs k) by (unfold X; rewrite V; exact B).
      destruct (upd_good rs acc k nw W HX) as (W1 & G1 & M1). cbn zeta in *.
      destruct (IH _ _ _ _ W1 H) as (W' & M & G). repeat split; auto.
      intros k' [<-|Hin]; auto.
Qed.

Lemma in_add_key x k l : In x (add_key k l) <-> x = k \/ In x l.
Proof.
  unfold add_key. destruct (existsb (N.eqb k) l) eqn:E.
  - split; [auto|]. intros [->|H]; [|exact H].
    apply existsb_exists in E. destruct E as (y & Hy & Ey). apply N.eqb_eq in Ey; subst; exact Hy.
  - cbn [In]. split; intros [H|H]; auto.
Qed.

Lemma in_res_of r rs : In r rs -> In (r_res r) (res_of rs).
Proof.
  induction rs as [|x tl IH]; intros H; [destruct H|].
  cbn [res_of fold_right]. apply in_add_key. destruct H as [->|H]; [left; reflexivity|right; apply IH; exact H].
Qed.

Lemma group_absent rs k : ~ In k (res_of rs) -> group rs k = [].
Proof.
  intros H. unfold group.
  destruct (filter (fun r => r_res r =? k) rs) as [|x l] eqn:F; [reflexivity|].
  exfalso. apply H.
  assert (Hx : In x (filter (fun r => r_res r =? k) rs)) by (rewrite F; left; reflexivity).
  apply filter_In in Hx. destruct Hx as [Hin E]. apply N.eqb_eq in E; subst. apply in_res_of; exact Hin.
Qed.

Lemma build_all_classes rs live next acc' nx :
  build_all (res_of rs) rs live next (fun _ => []) = (acc', nx) ->
  forall k, map cls (acc' k) = X rs k.
Proof.
  intros H k.
  assert (W0 : Weak rs (fun _ => [])) by (intros ?; left; reflexivity).
  destruct (build_all_spec rs live _ _ _ _ _ W0 H) as (W & _ & G).
  destruct (in_dec N.eq_dec k (res_of rs)) as [Hin|Hnin]; [apply G; exact Hin|].
  destruct (W k) as [E|Gk]; [|exact Gk].
  rewrite E. unfold X. rewrite (group_absent _ _ Hnin). reflexivity.
Qed.

(** * the invariant between the model manager and the reference map *)

Definition inv (m : mgr) (f : refmap) : Prop :=
  (forall k, m_given m k = rf_given f k) /\
  m_keys m = rf_keys f /\
  (forall res, map cls (m_live m res) = map class_of (ref_rules f res)).

Lemma inv_update mg ml fg ks given res nw nx nx0 ks0 :
  inv (mkMgr mg ml ks0 nx0) (mkRef fg ks0) ->
  map cls nw = map class_of (filter (fun r => r_valid r && (r_res r =? res)) given) ->
  inv (mkMgr (set_map mg res given) (set_map ml res nw) ks nx) (mkRef (set_map fg res given) ks).
Proof.
  intros (Hg & _ & Hl) HX. cbn in Hg, Hl. unfold inv. cbn [m_given rf_given m_keys rf_keys m_live].
  split; [|split; [reflexivity|]].
  - intros k. unfold set_map. destruct (k =? res); auto.
  - intros k. unfold ref_rules, set_map in *. cbn [rf_given] in *.
    destruct (k =? res) eqn:E; [|apply Hl].
    apply N.eqb_eq in E; subst. exact HX.
Qed.

Lemma step_inv iso m f o :
  inv m f ->
  inv (fst (mstep iso m o)) (fst (rstep iso f o)) /\ snd (mstep iso m o) = snd (rstep iso f o).
Proof.
  intros I. destruct m as [mg ml mk mn], f as [fg fk].
  assert (I' := I). destruct I' as (Hg & Hk & Hl). cbn in Hg, Hk, Hl. subst fk.
  destruct o as [rs|res rs|r| |res]; cbn [mstep rstep m_given m_live m_keys m_next rf_given rf_keys].
  - (* MLoadAll *)
    assert (EQ : given_eqb (mkMgr mg ml mk mn) rs = ref_given_eqb (mkRef fg mk) rs).
    { unfold given_eqb, ref_given_eqb. cbn [m_given m_keys rf_given rf_keys].
      apply forallb_ext'. intros k. rewrite Hg. reflexivity. }
    rewrite EQ. destruct (ref_given_eqb (mkRef fg mk) rs); [split; [exact I|reflexivity]|].
    destruct (build_all (res_of rs) rs ml mn (fun _ => [])) as [live' nx] eqn:B.
    cbn [fst snd]. split; [|reflexivity].
    unfold inv. cbn [m_given rf_given m_keys rf_keys m_live].
    split; [reflexivity|split; [reflexivity|]].
    intros res. rewrite (build_all_classes _ _ _ _ _ B res).
    unfold X, ref_rules, valid_of. cbn [rf_given]. rewrite filter_and. reflexivity.
  - (* MLoadRes *)
    destruct (res =? 0); [split; [exact I|reflexivity]|].
    destruct (dedup rs) as [|g0 gl] eqn:D.
    + cbn [fst snd]. split; [|reflexivity]. eapply inv_update; [exact I|reflexivity].
    + rewrite (Hg res). destruct (set_eqb (fg res) (g0 :: gl)); [split; [exact I|reflexivity]|].
      destruct (build res (valid_of (g0 :: gl)) (ml res) mn) as [[nw rest] nx] eqn:B.
      cbn [fst snd]. split; [|reflexivity]. eapply inv_update; [exact I|].
      rewrite (build_classes _ _ _ _ _ _ _ B). unfold valid_of. rewrite filter_and. reflexivity.
  - (* MAppend *)
    rewrite (Hg (r_res r)).
    destruct (mem_rule r (if iso then valid_of (fg (r_res r)) else fg (r_res r))); [split; [exact I|reflexivity]|].
    destruct (negb (r_valid r)); [split; [exact I|reflexivity]|].
    destruct (build (r_res r) (valid_of (fg (r_res r) ++ [r])) (ml (r_res r)) mn) as [[nw rest] nx] eqn:B.
    cbn [fst snd]. split; [|reflexivity]. eapply inv_update; [exact I|].
    rewrite (build_classes _ _ _ _ _ _ _ B). unfold valid_of. rewrite filter_and. reflexivity.
  - (* MClear *)
    cbn [fst snd]. split; [|reflexivity]. unfold inv, ref0; cbn. auto.
  - (* MClearRes *)
    cbn [fst snd]. split; [|reflexivity]. eapply inv_update; [exact I|reflexivity].
Qed.

Lemma dup_sensitive_eq m f rs : inv m f -> dup_sensitive m rs = ref_dup_sensitive f rs.
Proof.
  intros (Hg & Hk & _). unfold dup_sensitive, ref_dup_sensitive.
  rewrite Hk, (flat_map_ext _ _ Hg). reflexivity.
Qed.

Lemma flat_rules_eq m f l : inv m f ->
  map class_of (flat_map (rules_of m) l) = map class_of (flat_map (ref_rules f) l).
Proof.
  intros (_ & _ & Hl). induction l as [|x tl IH]; cbn [flat_map]; [reflexivity|].
  rewrite !map_app, IH. f_equal. unfold rules_of. rewrite map_map. apply Hl.
Qed.

Lemma rules_eq m f res : inv m f -> map class_of (rules_of m res) = map class_of (ref_rules f res).
Proof. intros (_ & _ & Hl). unfold rules_of. rewrite map_map. apply Hl. Qed.

Lemma run_inv iso nres pool : forall ops m f,
  inv m f -> mrun iso nres pool m ops = ref_run iso nres pool f ops.
Proof.
  induction ops as [|x tl IH]; intros m f I; [reflexivity|].
  destruct x as [ixs|res ixs|ix| |res| |res|res]; cbn [mrun ref_run].
  - pose proof (step_inv iso m f (MLoadAll (pick pool ixs)) I) as S.
    destruct (mstep iso m (MLoadAll (pick pool ixs))) as [m' r].
    destruct (rstep iso f (MLoadAll (pick pool ixs))) as [f' r'].
    cbn [fst snd] in S. destruct S as [I' ->].
    rewrite (IH _ _ I'). reflexivity.
  - pose proof (step_inv iso m f (MLoadRes res (pick pool ixs)) I) as S.
    destruct (mstep iso m (MLoadRes res (pick pool ixs))) as [m' r].
    destruct (rstep iso f (MLoadRes res (pick pool ixs))) as [f' r'].
    cbn [fst snd] in S. destruct S as [I' ->].
    rewrite (IH _ _ I'). reflexivity.
  - destruct (pick pool [ix]) as [|r0 [|? ?]]; try reflexivity.
    pose proof (step_inv iso m f (MAppend r0) I) as S.
    destruct (mstep iso m (MAppend r0)) as [m' r].
    destruct (rstep iso f (MAppend r0)) as [f' r'].
    cbn [fst snd] in S. destruct S as [I' ->].
    rewrite (IH _ _ I'). reflexivity.
  - pose proof (step_inv iso m f MClear I) as S.
    destruct (mstep iso m MClear) as [m' r].
    destruct (rstep iso f MClear) as [f' r'].
    cbn [fst snd] in S. destruct S as [I' ->].
    rewrite (IH _ _ I'). reflexivity.
  - pose proof (step_inv iso m f (MClearRes res) I) as S.
    destruct (mstep iso m (MClearRes res)) as [m' r].
    destruct (rstep iso f (MClearRes res)) as [f' r'].
    cbn [fst snd] in S. destruct S as [I' ->].
    rewrite (IH _ _ I'). reflexivity.
  - rewrite (classes_ext _ _ (flat_rules_eq m f _ I)), (IH _ _ I). reflexivity.
  - rewrite (classes_ext _ _ (rules_eq m f res I)), (IH _ _ I). reflexivity.
  - rewrite (classes_ext _ _ (rules_eq m f res I)), (IH _ _ I). reflexivity.
Qed.

Lemma inv0 : inv mgr0 ref0.
Proof. unfold inv, mgr0, ref0; cbn. auto. Qed.

(** C10 *)
Theorem c10_refines : forall iso nres pool ops,
  mrun iso nres pool mgr0 ops = ref_run iso nres pool ref0 ops.
Proof. intros. apply run_inv, inv0. Qed.

(** * C11, identity part *)

(** [class_of] decides rule equality on the rules at hand *)
Definition ClassExact (rules : list rule) (old : list ctl) : Prop :=
  forall r c, In r rules -> In c old -> class_of r = class_of (c_rule c) -> rule_eqb (c_rule c) r = true.

Lemma class_exact_keys rules old :
  Forall (fun r => r_key r < 1000000) rules -> Forall (fun c => r_key (c_rule c) < 1000000) old ->
  ClassExact rules old.
Proof.
  intros Hr Ho r c Hin Hc E. rewrite Forall_forall in Hr, Ho.
  specialize (Hr _ Hin). specialize (Ho _ Hc). cbv beta in Ho.
  unfold class_of in E. unfold rule_eqb. lia.
Qed.

Lemma class_exact_res res rules old :
  Forall (fun r => r_res r = res) rules -> Forall (fun c => r_res (c_rule c) = res) old ->
  ClassExact rules old.
Proof.
  intros Hr Ho r c Hin Hc E. rewrite Forall_forall in Hr, Ho.
  specialize (Hr _ Hin). specialize (Ho _ Hc). cbv beta in Ho.
  unfold class_of in E. unfold rule_eqb. lia.
Qed.

Lemma build_same_order res : forall rules old next,
  ClassExact rules old ->
  map class_of rules = map class_of (map c_rule old) ->
  Forall (fun r => r_res r = res) rules ->
  build res rules old next = (old, [], next).
Proof.
  induction rules as [|r tl IH]; intros old next CE E F.
  - destruct old; [reflexivity|discriminate].
  - destruct old as [|c old']; [discriminate|]. cbn [map] in E. inversion E as [[E1 E2]].
    inversion F as [|? ? Fr Ft]; subst.
    assert (He : rule_eqb (c_rule c) r = true) by (apply CE; cbn; auto).
    cbn [build]. rewrite N.eqb_refl. cbn [negb reuse_index]. rewrite He.
    cbn [nth_error remove_nth].
    rewrite IH; auto. intros r' c' Hr' Hc'. apply CE; cbn; auto.
Qed.

Lemma build_perm res : forall rules old next,
  ClassExact rules old ->
  Forall (fun r => r_res r = res) rules -> NoDupClasses old -> NoDup (map class_of rules) ->
  (forall k, In k (map class_of rules) <-> In k (map (fun c => class_of (c_rule c)) old)) ->
  exists nw, build res rules old next = (nw, [], next) /\ Permutation nw old /\
             map (fun c => class_of (c_rule c)) nw = map class_of rules.
Proof.
  unfold NoDupClasses. fold cls.
  induction rules as [|r tl IH]; intros old next CE F ND NDr S.
  - destruct old as [|c old'].
    + exists []. cbn. auto.
    + exfalso. apply (S (cls c)). cbn; auto.
  - inversion F as [|? ? Fr Ft]; subst.
    assert (Hin : In (class_of r) (map cls old)) by (apply S; cbn; auto).
    apply in_map_iff in Hin. destruct Hin as (c0 & Ec0 & Hc0).
    assert (He0 : rule_eqb (c_rule c0) r = true) by (apply CE; cbn; auto).
    cbn [build]. rewrite N.eqb_refl. cbn [negb].
    destruct (reuse_index r old 0 None) as [[i|] x] eqn:RI.
    2:{ rewrite (reuse_index_none _ _ _ _ _ RI _ Hc0) in He0. discriminate. }
    apply reuse_index_some in RI. destruct RI as (c & Hn & He & _).
    rewrite Nat.sub_0_r in Hn. rewrite Hn.
    destruct (nth_error_split _ _ Hn) as (l1 & l2 & -> & Hlen). subst i.
    rewrite remove_nth_app.
    assert (Ec : cls c = class_of r) by (apply rule_eqb_class; exact He).
    rewrite map_app in ND. cbn [map] in ND.
    cbn [map] in NDr. apply NoDup_cons_iff in NDr. destruct NDr as [Nr NDt].
    assert (ND' : NoDup (map cls (l1 ++ l2))) by (rewrite map_app; eapply NoDup_remove_1; eauto).
    assert (Nc : ~ In (cls c) (map cls (l1 ++ l2))) by (rewrite map_app; eapply NoDup_remove_2; eauto).
    destruct (IH (l1 ++ l2) next) as (nw' & B & P & M); auto.
    { intros r' c' Hr' Hc'. apply CE; [cbn; auto|].
      apply in_app_or in Hc'. apply in_or_app. cbn. tauto. }
    { intros k. split; intros Hk.
      - assert (Hk' : In k (map cls (l1 ++ c :: l2))) by (apply S; cbn; auto).
        rewrite map_app in Hk'. cbn [map] in Hk'. rewrite map_app.
        apply in_app_or in Hk'. apply in_or_app. destruct Hk' as [?|[Ek|?]]; auto.
        exfalso. apply Nr. rewrite <- Ec, Ek. exact Hk.
      - assert (Hk' : In k (map class_of (r :: tl))).
        { apply S. rewrite map_app in *. cbn [map]. apply in_app_or in Hk. apply in_or_app. cbn. tauto. }
        cbn [map] in Hk'. destruct Hk' as [Ek|?]; auto.
        exfalso. apply Nc. rewrite Ec, Ek. exact Hk. }
    rewrite B. exists (c :: nw'). repeat split.
    + apply Permutation_cons_app. exact P.
    + cbn [map]. fold cls. rewrite Ec. f_equal. exact M.
Qed.

(** same order, rule keys below the class radix *)
Lemma build_keeps_identity : forall res rules old next,
  Forall (fun r => r_key r < 1000000) rules -> Forall (fun c => r_key (c_rule c) < 1000000) old ->
  map class_of rules = map class_of (map c_rule old) ->
  Forall (fun r => r_res r = res) rules ->
  NoDupClasses old ->
  let '(nw, rest, nx) := build res rules old next in
  nw = old /\ rest = [] /\ nx = next.
Proof.
  intros res rules old next K1 K2 E F _.
  rewrite (build_same_order res rules old next (class_exact_keys _ _ K1 K2) E F). auto.
Qed.

(** same order, the controllers are controllers of the resource *)
Lemma build_keeps_identity_res : forall res rules old next,
  Forall (fun c => r_res (c_rule c) = res) old ->
  map class_of rules = map class_of (map c_rule old) ->
  Forall (fun r => r_res r = res) rules ->
  NoDupClasses old ->
  let '(nw, rest, nx) := build res rules old next in
  nw = old /\ rest = [] /\ nx = next.
Proof.
  intros res rules old next K E F _.
  rewrite (build_same_order res rules old next (class_exact_res res _ _ F K) E F). auto.
Qed.

Lemma build_keeps_identity_perm : forall res rules old next,
  Forall (fun r => r_key r < 1000000) rules -> Forall (fun c => r_key (c_rule c) < 1000000) old ->
  Forall (fun r => r_res r = res) rules -> NoDupClasses old -> NoDup (map class_of rules) ->
  (forall k, In k (map class_of rules) <-> In k (map (fun c => class_of (c_rule c)) old)) ->
  let '(nw, rest, nx) := build res rules old next in
  nx = next /\ rest = [] /\ Permutation nw old /\ map (fun c => class_of (c_rule c)) nw = map class_of rules.
Proof.
  intros res rules old next K1 K2 F ND NDr S.
  destruct (build_perm res rules old next (class_exact_keys _ _ K1 K2) F ND NDr S) as (nw & B & P & M).
  rewrite B. auto.
Qed.

Lemma build_keeps_identity_perm_res : forall res rules old next,
  Forall (fun c => r_res (c_rule c) = res) old ->
  Forall (fun r => r_res r = res) rules -> NoDupClasses old -> NoDup (map class_of rules) ->
  (forall k, In k (map class_of rules) <-> In k (map (fun c => class_of (c_rule c)) old)) ->
  let '(nw, rest, nx) := build res rules old next in
  nx = next /\ rest = [] /\ Permutation nw old /\ map (fun c => class_of (c_rule c)) nw = map class_of rules.
Proof.
  intros res rules old next K F ND NDr S.
  destruct (build_perm res rules old next (class_exact_res res _ _ F K) F ND NDr S) as (nw & B & P & M).
  rewrite B. auto.
Qed.

(** * the hypothesis of the [_res] variants holds of every reachable manager: the controllers
    kept for a resource are controllers of rules of that resource *)

Definition LiveRes (live : cmap) : Prop := forall k c, In c (live k) -> r_res (c_rule c) = k.

Lemma In_remove_nth {A} (x : A) : forall n l, In x (remove_nth n l) -> In x l.
Proof.
  induction n as [|n IH]; intros [|y tl] H; cbn [remove_nth] in H; cbn [In]; auto.
  destruct H as [H|H]; auto.
Qed.

Lemma build_res res : forall rules old next nw rest nx,
  build res rules old next = (nw, rest, nx) ->
  (forall c, In c old -> r_res (c_rule c) = res) ->
  forall c, In c nw -> r_res (c_rule c) = res.
Proof.
  induction rules as [|r tl IH]; intros old next nw rest nx H Ho; cbn [build] in H.
  - inversion H; subst. intros c [].
  - destruct (r_res r =? res) eqn:E; cbn [negb] in H; [|eapply IH; eauto].
    apply N.eqb_eq in E.
    destruct (reuse_index r old 0 None) as [[i|] [j|]] eqn:RI.
    + destruct (nth_error old i) as [c0|] eqn:Hn; [|eapply IH; eauto].
      destruct (build res tl (remove_nth i old) next) as [[nw' old'] nx'] eqn:B.
      inversion H; subst. intros c [<-|Hc]; [apply Ho; eapply nth_error_In; eauto|].
      eapply IH; eauto. intros c' Hc'. apply Ho. eapply In_remove_nth; eauto.
    + destruct (nth_error old i) as [c0|] eqn:Hn; [|eapply IH; eauto].
      destruct (build res tl (remove_nth i old) next) as [[nw' old'] nx'] eqn:B.
      inversion H; subst. intros c [<-|Hc]; [apply Ho; eapply nth_error_In; eauto|].
      eapply IH; eauto. intros c' Hc'. apply Ho. eapply In_remove_nth; eauto.
    + destruct (nth_error old j) as [c0|] eqn:Hn; [|eapply IH; eauto].
      destruct (build res tl (remove_nth j old) (next + 1)) as [[nw' old'] nx'] eqn:B.
      inversion H; subst. intros c [<-|Hc]; [reflexivity|].
      eapply IH; eauto. intros c' Hc'. apply Ho. eapply In_remove_nth; eauto.
    + destruct (build res tl old (next + 2)) as [[nw' old'] nx'] eqn:B.
      inversion H; subst. intros c [<-|Hc]; [reflexivity|]. eapply IH; eauto.
Qed.

Lemma live_res_set live k nw :
  LiveRes live -> (forall c, In c nw -> r_res (c_rule c) = k) -> LiveRes (set_map live k nw).
Proof.
  intros L H k' c. unfold set_map. destruct (k' =? k) eqn:E; [|apply L].
  apply N.eqb_eq in E; subst. apply H.
Qed.

Lemma build_all_res rs live : LiveRes live -> forall ks next acc acc' nx,
  LiveRes acc -> build_all ks rs live next acc = (acc', nx) -> LiveRes acc'.
Proof.
  intros L. induction ks as [|k tl IH]; intros next acc acc' nx La H; cbn [build_all] in H.
  - inversion H; subst; exact La.
  - destruct (valid_of (group rs k)) as [|r0 vl]; [eapply IH; eauto|].
    destruct (build k (r0 :: vl) (live k) next) as [[nw rest] nx1] eqn:B.
    eapply IH; [|exact H]. destruct nw as [|c l]; [exact La|].
    apply live_res_set; [exact La|]. eapply build_res; [exact B|apply L].
Qed.

Lemma mstep_live_res iso m o : LiveRes (m_live m) -> LiveRes (m_live (fst (mstep iso m o))).
Proof.
  intros L. destruct m as [mg ml mk mn]. cbn [m_live] in L.
  destruct o as [rs|res rs|r| |res]; cbn [mstep m_given m_live m_keys m_next].
  - destruct (given_eqb _ rs); [exact L|].
    destruct (build_all (res_of rs) rs ml mn (fun _ => [])) as [live' nx] eqn:B.
    cbn [fst m_live]. eapply build_all_res; [exact L| |exact B]. intros k c [].
  - destruct (res =? 0); [exact L|].
    destruct (dedup rs) as [|g0 gl].
    + cbn [fst m_live]. apply live_res_set; [exact L|intros c []].
    + destruct (set_eqb _ _); [exact L|].
      destruct (build res (valid_of (g0 :: gl)) (ml res) mn) as [[nw rest] nx] eqn:B.
      cbn [fst m_live]. apply live_res_set; [exact L|]. eapply build_res; [exact B|apply L].
  - destruct (mem_rule r _); [exact L|]. destruct (negb (r_valid r)); [exact L|].
    destruct (build (r_res r) (valid_of (mg (r_res r) ++ [r])) (ml (r_res r)) mn) as [[nw rest] nx] eqn:B.
    cbn [fst m_live]. apply live_res_set; [exact L|]. eapply build_res; [exact B|apply L].
  - cbn [fst m_live]. intros k c [].
  - cbn [fst m_live]. apply live_res_set; [exact L|intros c []].
Qed.

Theorem reachable_live_res : forall iso ops res,
  Forall (fun c => r_res (c_rule c) = res)
         (m_live (fold_left (fun m o => fst (mstep iso m o)) ops mgr0) res).
Proof.
  intros iso ops res. apply Forall_forall. intros c Hc. revert res c Hc.
  change (LiveRes (m_live (fold_left (fun m o => fst (mstep iso m o)) ops mgr0))).
  assert (G : forall m, LiveRes (m_live m) -> LiveRes (m_live (fold_left (fun m o => fst (mstep iso m o)) ops m))).
  { induction ops as [|o tl IH]; intros m L; cbn [fold_left]; [exact L|]. apply IH, mstep_live_res, L. }
  apply G. intros k c [].
Qed.

Print Assumptions c10_refines.
Print Assumptions reachable_live_res.
Print Assumptions build_keeps_identity.
Print Assumptions build_keeps_identity_res.
Print Assumptions build_keeps_identity_perm.
Print Assumptions build_keeps_identity_perm_res.
