(** C18: the metric-log line codec round trip (Model/MetricLine.v). *)
From SV Require Import Model.Base Model.MetricLine.
From Coq Require Import DecimalN ZifyBool ZifyN.
Open Scope N_scope.

(** * Decimal printing / parsing *)

Definition digit (b : N) : Prop := 48 <= b /\ b <= 57.
Definition nosep (l : bytes) : Prop := Forall (fun b => b <> SEP) l.

Lemma bytes_uint_uint_bytes : forall u, bytes_uint (uint_bytes u) = Some u.
Proof.
  induction u; cbn [uint_bytes bytes_uint]; try rewrite IHu; reflexivity.
Qed.

Lemma uint_bytes_digits : forall u, Forall digit (uint_bytes u).
Proof.
  induction u; cbn [uint_bytes]; constructor; auto; unfold digit; lia.
Qed.

Lemma to_uint_nonnil : forall n, N.to_uint n <> Decimal.Nil.
Proof.
  intros n H.
  assert (E : N.of_uint (N.to_uint n) = n) by apply DecimalN.Unsigned.of_to.
  rewrite H in E. cbn in E. subst n. cbn in H. discriminate.
Qed.

Lemma digits_nosep : forall l, Forall digit l -> nosep l.
Proof.
  intros l H. unfold nosep. eapply Forall_impl; [|exact H].
  intros b [H1 H2]. unfold SEP. lia.
Qed.

Lemma dec_nosep : forall n, nosep (dec n).
Proof. intros n. apply digits_nosep. apply uint_bytes_digits. Qed.

Lemma dec_shape : forall n, exists b tl, dec n = b :: tl /\ digit b.
Proof.
  intros n. pose proof (uint_bytes_digits (N.to_uint n)) as HD.
  pose proof (to_uint_nonnil n) as HN. unfold dec.
  destruct (N.to_uint n); [contradiction| ..]; cbn [uint_bytes] in *;
    inversion HD; subst; eexists; eexists; (split; [reflexivity | assumption]).
Qed.

Lemma dec_parse : forall max n, n <= max -> parse_uint max (dec n) = Some n.
Proof.
  intros max n Hle.
  destruct (dec_shape n) as (b & tl & E & [Hb1 Hb2]).
  pose proof (bytes_uint_uint_bytes (N.to_uint n)) as HB. fold (dec n) in HB.
  unfold parse_uint. rewrite E in *.
  replace (b =? PLUS) with false by (unfold PLUS; lia).
  rewrite HB. cbv zeta. rewrite DecimalN.Unsigned.of_to.
  replace (n <=? max) with true by lia. reflexivity.
Qed.

Lemma parse_uint_le : forall max l n, parse_uint max l = Some n -> n <= max.
Proof.
  intros max l n. unfold parse_uint.
  destruct (match l with [] => [] | b :: tl => if b =? PLUS then tl else l end) as [|d ds];
    [discriminate|].
  destruct (bytes_uint (d :: ds)) as [u|]; [|discriminate].
  cbv zeta. destruct (N.of_uint u <=? max) eqn:E; [|discriminate].
  intros [= <-]. apply N.leb_le. exact E.
Qed.

(** * Splitting *)

Lemma split_sep_app_gen : forall a l cur, nosep a ->
  split_sep (a ++ SEP :: l) cur = (List.rev cur ++ a) :: split_sep l [].
Proof.
  induction a as [|x a IH]; intros l cur H.
  - cbn [List.app split_sep]. replace (SEP =? SEP) with true by reflexivity.
    rewrite app_nil_r. reflexivity.
  - inversion H; subst. cbn [List.app split_sep].
    replace (x =? SEP) with false by lia.
    rewrite IH by assumption. cbn [List.rev]. rewrite <- app_assoc. reflexivity.
Qed.

Lemma split_sep_last_gen : forall a cur, nosep a -> split_sep a cur = [List.rev cur ++ a].
Proof.
  induction a as [|x a IH]; intros cur H.
  - cbn [split_sep]. rewrite app_nil_r. reflexivity.
  - inversion H; subst. cbn [split_sep].
    replace (x =? SEP) with false by lia.
    rewrite IH by assumption. cbn [List.rev]. rewrite <- app_assoc. reflexivity.
Qed.

Lemma split_sep_app : forall a l, nosep a -> split_sep (a ++ SEP :: l) [] = a :: split_sep l [].
Proof. intros. rewrite split_sep_app_gen by assumption. reflexivity. Qed.

Lemma split_sep_last : forall a, nosep a -> split_sep a [] = [a].
Proof. intros. rewrite split_sep_last_gen by assumption. reflexivity. Qed.

(** * Fields without separator *)

Lemma clean_name_nosep : forall l, nosep (clean_name l).
Proof.
  induction l as [|b l IH]; cbn [clean_name map]; constructor; auto.
  destruct (b =? SEP) eqn:E; [unfold USCORE, SEP; lia | lia].
Qed.

Lemma two_nosep : forall n, n < 100 -> nosep (two n).
Proof.
  intros n H. unfold two, nosep.
  assert (n / 10 < 10) by (apply N.div_lt_upper_bound; lia).
  assert (n mod 10 < 10) by (apply N.mod_lt; lia).
  repeat constructor; unfold SEP; lia.
Qed.

Lemma nosep_app : forall a b, nosep a -> nosep b -> nosep (a ++ b).
Proof. intros a b Ha Hb. unfold nosep. apply Forall_app. split; assumption. Qed.

Lemma time_str_nosep : forall ts, nosep (time_str ts).
Proof.
  intros ts. unfold time_str. cbv zeta.
  assert (HC : nosep [COLON]) by (repeat constructor; unfold COLON, SEP; lia).
  assert (H1 : (ts / 1000 / 3600) mod 24 < 24) by (apply N.mod_lt; lia).
  assert (H2 : (ts / 1000 / 60) mod 60 < 60) by (apply N.mod_lt; lia).
  assert (H3 : (ts / 1000) mod 60 < 60) by (apply N.mod_lt; lia).
  repeat apply nosep_app; auto; apply two_nosep; lia.
Qed.

(** * Main results *)

Lemma type_of_u8_id : forall n, n <= 6 -> type_of_u8 n = n.
Proof.
  intros n H. unfold type_of_u8.
  destruct (1 <=? n) eqn:E1; destruct (n <=? 6) eqn:E2; cbn [andb]; lia.
Qed.

Lemma type_of_u8_le : forall n, type_of_u8 n <= 6.
Proof.
  intros n. unfold type_of_u8.
  destruct (1 <=? n) eqn:E1; destruct (n <=? 6) eqn:E2; cbn [andb]; lia.
Qed.

Lemma split_to_line : forall i,
  split_sep (to_line i) [] =
  [dec (mi_ts i); time_str (mi_ts i); clean_name (mi_res i); dec (mi_pass i); dec (mi_block i);
   dec (mi_complete i); dec (mi_error i); dec (mi_avg_rt i); dec (mi_occupied i); dec (mi_conc i);
   dec (mi_type i)].
Proof.
  intros i. unfold to_line. cbn [join].
  repeat match goal with
  | |- context [ [SEP] ++ ?x ] => change ([SEP] ++ x) with (SEP :: x)
  end.
  repeat (rewrite split_sep_app by
            first [apply dec_nosep | apply time_str_nosep | apply clean_name_nosep]).
  rewrite split_sep_last by apply dec_nosep. reflexivity.
Qed.

Theorem c18_roundtrip : forall i, item_wf i -> from_line (to_line i) = Some (norm i).
Proof.
  intros i (Hty & Hts & Hpa & Hbl & Hco & Her & Hrt & Hoc & Hcn & _).
  pose proof (split_to_line i) as HS.
  unfold from_line.
  destruct (to_line i) as [|b l] eqn:EL.
  - cbn [split_sep List.rev] in HS. discriminate.
  - rewrite HS. cbv beta iota.
    rewrite (dec_parse U64_MAX (mi_ts i)) by assumption. cbn [opt_bind].
    rewrite (dec_parse U64_MAX (mi_pass i)) by assumption. cbn [opt_bind].
    rewrite (dec_parse U64_MAX (mi_block i)) by assumption. cbn [opt_bind].
    rewrite (dec_parse U64_MAX (mi_complete i)) by assumption. cbn [opt_bind].
    rewrite (dec_parse U64_MAX (mi_error i)) by assumption. cbn [opt_bind].
    rewrite (dec_parse U64_MAX (mi_avg_rt i)) by assumption. cbn [opt_bind].
    rewrite (dec_parse U64_MAX (mi_occupied i)) by assumption. cbn [opt_bind].
    rewrite (dec_parse U32_MAX (mi_conc i)) by assumption. cbn [opt_bind].
    rewrite (dec_parse U8_MAX (mi_type i)) by (unfold U8_MAX; lia). cbn [opt_bind].
    rewrite type_of_u8_id by assumption. reflexivity.
Qed.

Theorem c18_parse_in_range : forall l i, from_line l = Some i ->
  mi_type i <= 6 /\ mi_ts i <= U64_MAX /\ mi_pass i <= U64_MAX /\ mi_block i <= U64_MAX /\
  mi_complete i <= U64_MAX /\ mi_error i <= U64_MAX /\ mi_avg_rt i <= U64_MAX /\
  mi_occupied i <= U64_MAX /\ mi_conc i <= U32_MAX.
Proof.
  intros l i H. unfold from_line in H.
  destruct l as [|b l']; [discriminate|].
  destruct (split_sep (b :: l') []) as [|f0 [|f1 [|f2 [|f3 [|f4 [|f5 [|f6 [|f7 rest]]]]]]]];
    try discriminate.
  cbv beta iota in H.
  repeat match type of H with
  | opt_bind ?o _ = Some _ =>
      let E := fresh "E" in
      destruct o eqn:E; [apply parse_uint_le in E; cbn [opt_bind] in H | discriminate]
  | match ?r with [] => _ | _ :: _ => _ end = Some _ => destruct r
  end;
  injection H as <-; cbn [mi_type mi_ts mi_pass mi_block mi_complete mi_error mi_avg_rt
                            mi_occupied mi_conc];
  pose proof (type_of_u8_le) as HT;
  repeat split; try assumption; try apply HT; unfold U64_MAX, U32_MAX; lia.
Qed.

Lemma norm_idem : forall i, norm (norm i) = norm i.
Proof.
  intros i. unfold norm. cbn [mi_res mi_type mi_ts mi_pass mi_block mi_complete mi_error
                               mi_avg_rt mi_occupied mi_conc].
  f_equal. unfold clean_name. rewrite map_map. apply map_ext.
  intros b. cbv beta. destruct (b =? SEP) eqn:E; [reflexivity | rewrite E; reflexivity].
Qed.

Print Assumptions c18_roundtrip.
Print Assumptions c18_parse_in_range.
Print Assumptions norm_idem.
