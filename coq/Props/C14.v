(** C14 — concurrent entries share one statistics node, accounted without loss or excess.
    Statements only; proofs in Proofs/C14Proofs.v.  The schedule (which thread runs its next
    micro-step segment, and how far the clock moves before it) is universally quantified. *)
From SV Require Import Model.Base Model.LeapArray Model.World Model.Conc Spec.C14Spec Proofs.C14Proofs.
Open Scope N_scope.

(** for every thread count, program, start condition and schedule: all threads finish; every
    entry holds the one node the map holds; in-flight = built - exited on the resource and the
    inbound node; totals never exceed what was recorded, and equal it when no bucket roll-over
    is involved *)
Theorem C14_accounting_every_schedule : forall base mode progs steps,
  ok_c14 base mode progs steps (fst (model_obs false base mode progs steps)) = true.
Proof. exact c14_accounting. Qed.

(** one node per resource under insert-if-absent, whatever the schedule *)
Theorem C14_one_node : forall base mode progs steps st ths tr,
  run_case false base mode progs steps = (st, ths, tr) ->
  (length (c_nodes st) <= 1)%nat /\ Forall (fun x => snd (fst (fst x)) = 0%nat) (c_seen st).
Proof. exact c14_one_node. Qed.

(** every schedule lets every thread finish *)
Theorem C14_all_threads_finish : forall racy base mode progs steps st ths tr,
  run_case racy base mode progs steps = (st, ths, tr) -> all_done ths = true.
Proof. exact c14_all_finish. Qed.

(** the original check-then-insert does not have the property: a schedule on which two
    first-touch threads end up on two nodes *)
Theorem C14_check_then_insert_refuted : exists base mode progs steps,
  ok_c14 base mode progs steps (fst (model_obs true base mode progs steps)) = false.
Proof. exact c14_racy_refuted. Qed.

(** a roll-over race really loses events (so the exactness clause cannot be extended to it):
    a schedule on a resource used 60 s earlier on which the final pass total is below what
    was recorded *)
Theorem C14_rollover_race_loses : exists base progs steps,
  100000 <= base /\
  let o := fst (model_obs false base 0 progs steps) in
  o_pass o < b_batches false (o_builds o).
Proof. exact c14_rollover_loses. Qed.
