(** C15 — concurrent rule updates and entries never deadlock (lock-order part).
    Statements only; proofs in Proofs/LocksProofs.v. *)
From SV Require Import Model.Base Model.Locks Spec.C15Spec Proofs.LocksProofs.

(** any number of threads, each running a program that respects a lock order and releases what
    it takes, in any interleaving: no reachable state is a deadlock *)
Theorem C15_lock_order_no_deadlock : forall rank progs s,
  Forall (fun p => ranked rank [] p = true) progs ->
  lreach (start_of progs) s -> ~ deadlocked s.
Proof. exact lock_order_no_deadlock. Qed.

(** the acquisition contexts the code is known to have all respect the order [lock_rank] ... *)
Theorem C15_known_contexts_ordered : forallb (ctx_ok lock_rank) known_contexts = true.
Proof. exact known_contexts_ordered. Qed.

(** ... so any concurrent combination of calls whose acquisitions happen in known contexts
    (whatever they do in between, as long as they release what they take) cannot deadlock *)
Theorem C15_managers_no_deadlock : forall progs s,
  Forall (fun p => balanced [] p = true /\ forallb (ctx_in known_contexts) (contexts [] p) = true) progs ->
  lreach (start_of progs) s -> ~ deadlocked s.
Proof. exact managers_no_deadlock. Qed.

(** an inverted order does deadlock: two threads taking two locks in opposite orders *)
Theorem C15_inverted_order_deadlocks : exists s,
  lreach (start_of [[Acq 8; Acq 10; Rel 10; Rel 8]; [Acq 10; Acq 8; Rel 8; Rel 10]]%nat) s /\ deadlocked s.
Proof. exact inverted_order_deadlocks. Qed.
