(** C10 — Rule managers hold and enforce exactly the valid rules last given, incl. appends.
    Statements only. *)
From SV Require Import Model.Base Model.Manager Spec.C10Spec Run.Common Run.RunMgr Run.RunC10 Proofs.C10Proofs.
Open Scope N_scope.

(** For every family flag, every pool of valid / invalid / duplicate-but-differently-identified
    rules on any resources (incl. the empty name) and every sequence of load-all,
    load-for-resource, append, clear and get calls, the model manager — controllers, reuse of
    the controller of an equal rule and of a reusable statistic, rebuild with removal from the
    old list — answers exactly as the reference map of Spec/C10Spec.v prescribes: the return
    values (true / false / Err; "unchanged" for an identical set), and after every call the
    rules reported and the rules enforced per resource, as sets under rule equality.
    The reference map keeps no controllers: per resource the rules as last given plus later
    valid appends; what must be reported and enforced is its valid part. Hence: invalid rules are
    ignored without affecting the valid ones, replacing one resource leaves the others untouched,
    and an append adds the new rule without dropping any active one. *)
Theorem C10_manager_refines_reference_map : forall iso nres pool ops,
  mrun iso nres pool mgr0 ops = ref_run iso nres pool ref0 ops.
Proof. exact c10_refines. Qed.

(** every controller of a resource was built for a rule that names that resource *)
Theorem C10_controllers_belong_to_resource : forall iso ops res,
  Forall (fun c => r_res (c_rule c) = res)
         (m_live (fold_left (fun m o => fst (mstep iso m o)) ops mgr0) res).
Proof. exact reachable_live_res. Qed.

Example C10_example :
  (* three appends keep three controllers; an invalid rule loaded earlier is not activated *)
  let pool := [mkRule 1 1 5 false 1; mkRule 2 1 2 true 0; mkRule 3 1 3 true 1; mkRule 4 1 4 true 0] in
  mrun false 1 pool mgr0 [CLoadRes 1 [0%nat]; CAppend 1; CAppend 2; CAppend 3; CGetRes 1; CEnforced 1] =
  [[1]; [1]; [1]; [1]; [1000002; 1000003; 1000004]; [1000002; 1000003; 1000004]]%Z.
Proof. vm_compute. reflexivity. Qed.
