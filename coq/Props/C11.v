(** C11 — Hot reload keeps the state of unchanged rules and applies changed ones at once.
    Statements only. *)
From SV Require Import Model.Base Model.Manager Spec.C10Spec Spec.C11Spec Run.Common Run.RunMgr Run.RunC10
  Proofs.C10Proofs Proofs.C11Proofs.
Open Scope N_scope.

(** Identity: along every sequence of manager operations (load-all, load-for-resource, append,
    clear — whatever happens to other resources, to rule order or to rule ids) and identity
    observations, whenever a resource is observed again while the rules prescribed for it
    (pairwise different under rule equality) did not change at any operation in between, its
    controllers / breakers are the very same objects with the very same statistic objects.
    All accumulated state of a rule (statistic window, throttling schedule, token buckets,
    concurrency counters, breaker state and counters) lives in those objects, whose behaviour is
    the subject of C01, C03, C05, C06, C07. *)
Theorem C11_equal_reload_keeps_objects : forall iso ops,
  ok_c11 iso ref0 [] ops (c11_run iso mgr0 ops) = true.
Proof. exact c11_identity. Qed.

(** One rebuild step: if the rules given are, up to order and ids, equal to those of the
    resource's controllers, the rebuild returns a permutation of the same controllers, creates
    nothing new and leaves nothing behind. *)
Theorem C11_rebuild_is_identity : forall res rules old next,
  Forall (fun c => r_res (c_rule c) = res) old ->
  Forall (fun r => r_res r = res) rules -> NoDupClasses old -> NoDup (map RunMgr.class_of rules) ->
  (forall k, In k (map RunMgr.class_of rules) <-> In k (map (fun c => RunMgr.class_of (c_rule c)) old)) ->
  let '(nw, rest, nx) := build res rules old next in
  nx = next /\ rest = [] /\ Permutation.Permutation nw old /\
  map (fun c => RunMgr.class_of (c_rule c)) nw = map RunMgr.class_of rules.
Proof. exact build_keeps_identity_perm_res. Qed.

(** A changed rule takes effect at once: after any operation the rules enforced are exactly the
    prescribed ones (C10). *)
Theorem C11_changed_rule_immediate : forall iso nres pool ops,
  mrun iso nres pool mgr0 ops = ref_run iso nres pool ref0 ops.
Proof. exact c10_refines. Qed.
