(** C17 — Accepted configuration is usable and is the same for every thread.  Statements only. *)
From SV Require Import Model.Base Model.LeapArray Model.World Model.Config Proofs.WorldProofs Proofs.C17Proofs.
Open Scope N_scope.

(** For ALL four-tuples (not a grid): a configuration accepted by validation builds a
    statistics node without panicking, with exactly the configured geometry, and that
    geometry satisfies [geom_ok], the premise under which the window theorems (C02) and the
    accounting theorems (C01, C04, C05) hold for every resource. *)
Theorem C17_check_implies_usable : forall c,
  cfg_check c = true ->
  exists g, node_new c = Some (g, mkW (sc_metric c) (iv_metric c)) /\
    sc g = sc_total c /\ iv g = iv_total c /\
    geom_ok (mkCfg g (sc_metric c) (iv_metric c)).
Proof. exact check_implies_usable. Qed.

Theorem C17_accepted_never_panics : forall c, cfg_check c = true -> node_new c <> None.
Proof. exact accepted_never_panics. Qed.

(** validation rejects exactly the geometries that cannot be served *)
Theorem C17_unservable_rejected : forall c,
  cfg_check c = false <->
  ~ (sc_metric c <> 0 /\ iv_metric c <> 0 /\ iv_metric c mod sc_metric c = 0 /\
     sc_total c <> 0 /\ iv_total c <> 0 /\ iv_total c mod sc_total c = 0 /\
     iv_total c mod iv_metric c = 0 /\ (iv_metric c / sc_metric c) mod (iv_total c / sc_total c) = 0).
Proof. exact unservable_rejected. Qed.

(** one store for the whole process *)
Theorem C17_same_on_every_thread : forall c t1 t2,
  store_read (store_init c) t1 = store_read (store_init c) t2 /\ store_read (store_init c) t1 = c.
Proof. exact same_on_every_thread. Qed.

Example C17_example :
  cfg_obs (mkSC 10 5000 2 1000) = [1; 10; 5000; 2; 1000; 10; 5000; 2; 1000; 10; 5000; 2; 1000; 0; 2; 1000; 10; 5000; 0; 2; 1000; 10; 5000]%Z
  /\ cfg_obs (mkSC 20 10000 3 1000) = [0; 20; 10000; 2; 1000]%Z.
Proof. split; vm_compute; reflexivity. Qed.
