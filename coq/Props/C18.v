(** C18 — Rules and metric lines survive serialisation round trips unchanged (metric-line half;
    the rule-JSON half is exercised on the implementation only, see DESIGN).  Statements only. *)
From SV Require Import Model.Base Model.MetricLine Proofs.C18Proofs.
Open Scope N_scope.

(** Every metric-log line produced for a metric item — any counters within their integer types,
    any resource type, any timestamp, any resource name bytes — parses back to the same item, the
    resource name being altered only by the replacement of the field separator. *)
Theorem C18_metric_roundtrip : forall i, item_wf i -> from_line (to_line i) = Some (MetricLine.norm i).
Proof. exact c18_roundtrip. Qed.

(** Whatever the input bytes, parsing yields an error or an item whose fields are in range
    (the model's parser is total: there is no panic outcome). *)
Theorem C18_metric_parse_in_range : forall l i, from_line l = Some i ->
  mi_type i <= 6 /\ mi_ts i <= U64_MAX /\ mi_pass i <= U64_MAX /\ mi_block i <= U64_MAX /\
  mi_complete i <= U64_MAX /\ mi_error i <= U64_MAX /\ mi_avg_rt i <= U64_MAX /\
  mi_occupied i <= U64_MAX /\ mi_conc i <= U32_MAX.
Proof. exact c18_parse_in_range. Qed.

Theorem C18_norm_idempotent : forall i, MetricLine.norm (MetricLine.norm i) = MetricLine.norm i.
Proof. exact norm_idem. Qed.

Example C18_example :
  from_line (to_line (mkMI [97; 124; 98] 3 1700000000123 5 0 7 1 20 0 4)) =
  Some (mkMI [97; 95; 98] 3 1700000000123 5 0 7 1 20 0 4).
Proof. vm_compute. reflexivity. Qed.
