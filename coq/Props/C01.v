(** C01 — Reject-type flow control admits a request iff it fits every rule's window.
    Statements only. *)
From SV Require Import Model.Base Model.LeapArray Model.World Spec.WorldSpec Spec.C01Spec
  Proofs.WorldProofs Proofs.C05Proofs Proofs.C01Proofs Proofs.C04Proofs.
Open Scope N_scope.

(** For every servable configuration, every set of direct/reject flow controllers on any
    number of resources (any thresholds incl. fractional, infinite and NaN; statistic on the
    default metric, on a window over the 10 s ring, or on a private ring), every starting time
    of at least one interval of every ring involved, and every history of builds with any
    batch counts, exits in any order and clock advances of any size: each build is admitted
    exactly when, for every rule of its resource, the tokens admitted so far whose bucket lies
    in that rule's current window plus the batch do not exceed the threshold; a rejection is a
    Flow block naming a rule that does not fit, with that rule's window count.  Stated for the flow family on
    its own (no isolation rules, histories of builds / exits / clock advances only: [no_extra]); the start-time
    requirement of a rule with a private ring is part of [flow_ok]. *)
Theorem C01_admit_iff_fits : forall c base rules ops,
  geom_ok c -> iv (c_total c) <= base -> flow_ok c base rules -> forallb no_extra ops = true ->
  ok_c01 c rules base ops (run_typed (world0 c base rules (fun _ => [])) ops) = true.
Proof. exact c01_admit_iff_fits. Qed.

(** the controllers derived from a rule's statistic interval meet the premise [flow_ok] *)
Theorem C01_generated_controllers_ok : forall c interval now rule t,
  geom_ok c -> interval <= now -> fctl_rel c [] now (mkF rule t (stat_for c interval)).
Proof. exact stat_for_ok. Qed.

(** Non-vacuity: threshold 2.5 on a private 1.5 s window; the third token does not fit,
    it fits again once the first bucket has left the window. *)
Example C01_example :
  let rules := fun _ : N => [mkF 7 (TFin 5 (-1)) (stat_for default_cfg 1500)] in
  run_typed (world0 default_cfg 600000 rules (fun _ => []))
    [WB 1 0 1 false None; WA 500; WB 2 0 1 false None; WB 3 0 1 false None; WA 1000; WB 4 0 1 false None] =
  [ZAdmit; ZTick; ZAdmit; ZBlock 1 7 2; ZTick; ZAdmit].
Proof. vm_compute. reflexivity. Qed.
