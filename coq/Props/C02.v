(** C02 — Sliding-window statistics report exactly the events inside the window.
    This file contains only statements; each is closed by [exact] of a lemma proved in
    Proofs/. *)
From SV Require Import Model.Base Model.F64 Model.LeapArray Spec.C02Spec
  Proofs.LeapArrayProofs Proofs.C02Proofs Proofs.C02Count Proofs.C02Past.
Open Scope N_scope.

(** Hypotheses shared by the read theorems: ring [g] with bucket length > 0; window [w]
    accepted by the reuse check; history [h] (oldest first) with non-decreasing times, all
    at least one bucket length; read time [now] not before any write and at least one ring
    interval (no u64 underflow in the range computation); [slots] is the state the model
    reaches by applying [h] to the fresh ring. *)
Definition C02_pre := read_pre.

Theorem C02_writes_accepted : forall g h,
  0 < bl g -> 0 < sc g -> wf_hist g h ->
  exists slots, run_strict g (ring0 g) h = Some slots /\ run_writes g (ring0 g) h = Some slots.
Proof. exact writes_accepted. Qed.
Print Assumptions C02_writes_accepted.

Theorem C02_sum_exact : forall g wsc wiv w h slots now ev,
  C02_pre g wsc wiv w h slots now ->
  sum_with_time g w slots now ev = ROk (spec_sum g w now ev h).
Proof. exact sum_exact. Qed.
Print Assumptions C02_sum_exact.

Theorem C02_rate_exact : forall g wsc wiv w h slots now ev,
  C02_pre g wsc wiv w h slots now ->
  qps_with_time g w slots now ev = ROk (qps_of_sum w (spec_sum g w now ev h)).
Proof. exact rate_exact. Qed.
Print Assumptions C02_rate_exact.

Theorem C02_avg_rt_exact : forall g wsc wiv w h slots now,
  C02_pre g wsc wiv w h slots now ->
  win_avg_rt g w slots now = ROk (avg_of (spec_sum g w now Rt h) (spec_sum g w now Complete h)).
Proof. exact avg_rt_exact. Qed.
Print Assumptions C02_avg_rt_exact.

Theorem C02_min_rt_exact : forall g wsc wiv w h slots now,
  C02_pre g wsc wiv w h slots now ->
  win_min_rt g w slots now = ROk (spec_min_rt g w now h).
Proof. exact min_rt_exact. Qed.
Print Assumptions C02_min_rt_exact.

Theorem C02_max_concurrency_exact : forall g wsc wiv w h slots now,
  C02_pre g wsc wiv w h slots now ->
  win_max_conc g w slots now = ROk (spec_max_conc g w now h).
Proof. exact max_conc_exact. Qed.
Print Assumptions C02_max_concurrency_exact.

Theorem C02_slots_reflect_history : forall g h slots,
  0 < bl g -> 0 < sc g -> wf_hist g h -> run_writes g (ring0 g) h = Some slots ->
  length slots = N.to_nat (sc g) /\
  forall i s v, nth_error slots i = Some (s, v) ->
    (s = 0 /\ v = bucket0 /\ forall e, In e h -> N.to_nat (idx g (fst e)) <> i) \/
    (s <> 0 /\ N.to_nat (idx g s) = i /\ v = agg g (rev h) s /\
     (exists e, In e h /\ start g (fst e) = s) /\
     forall e, In e h -> N.to_nat (idx g (fst e)) = i -> start g (fst e) <= s).
Proof. exact slots_reflect_history. Qed.
Print Assumptions C02_slots_reflect_history.

(** Reads for a window that ends before the last write (what qps_previous does): as long as no
    bucket of the window has been recycled for a later one, the same values are read — later
    events are never reported. *)
Definition C02_pre_past (g : geom) (wsc wiv : N) (w : win) (h : list ev_t) (slots : list slot) (now : N) : Prop :=
  0 < bl g /\ 0 < sc g /\ win_new g wsc wiv = Some w /\ wf_hist g h /\
  run_writes g (ring0 g) h = Some slots /\ iv g <= now /\
  (forall e, In e h -> start g (fst e) < start g now - w_iv w + bl g + iv g).

Theorem C02_sum_exact_past : forall g wsc wiv w h slots now ev,
  C02_pre_past g wsc wiv w h slots now ->
  sum_with_time g w slots now ev = ROk (spec_sum g w now ev h).
Proof. exact sum_exact_past. Qed.
Print Assumptions C02_sum_exact_past.

Theorem C02_min_rt_exact_past : forall g wsc wiv w h slots now,
  C02_pre_past g wsc wiv w h slots now ->
  win_min_rt g w slots now = ROk (spec_min_rt g w now h).
Proof. exact min_rt_exact_past. Qed.

Theorem C02_max_concurrency_exact_past : forall g wsc wiv w h slots now,
  C02_pre_past g wsc wiv w h slots now ->
  win_max_conc g w slots now = ROk (spec_max_conc g w now h).
Proof. exact max_conc_exact_past. Qed.

Theorem C02_rate_exact_past : forall g wsc wiv w h slots now ev,
  C02_pre_past g wsc wiv w h slots now ->
  qps_with_time g w slots now ev = ROk (qps_of_sum w (spec_sum g w now ev h)).
Proof. exact rate_exact_past. Qed.

(** the whole-array count equals the direct computation from the event list: events in buckets
    that are still valid at the read time and have not been recycled *)
Theorem C02_count_exact : forall g h slots now ev,
  0 < bl g -> 0 < sc g -> wf_hist g h -> run_writes g (ring0 g) h = Some slots ->
  (forall e, In e h -> fst e <= now) ->
  count_with_time g slots now ev = spec_count g now ev h.
Proof. exact count_exact. Qed.
Print Assumptions C02_count_exact.

Theorem C02_ring_refused_iff : forall sample_count interval_ms,
  ring_new sample_count interval_ms = None <-> (sample_count = 0 \/ interval_ms mod sample_count <> 0).
Proof. exact ring_refused_iff. Qed.
Print Assumptions C02_ring_refused_iff.

Theorem C02_reuse_accepted_iff : forall wsc wiv psc piv,
  check_reuse wsc wiv psc piv = true <->
  (wsc <> 0 /\ wiv <> 0 /\ wiv mod wsc = 0 /\ psc <> 0 /\ piv <> 0 /\ piv mod psc = 0 /\
   piv mod wiv = 0 /\ (wiv / wsc) mod (piv / psc) = 0).
Proof. exact reuse_accepted_iff. Qed.
Print Assumptions C02_reuse_accepted_iff.

(** Non-vacuity: a concrete ring, window, history and read time meet the hypotheses, and
    the read is non-trivial (an expired bucket was overwritten, one event is outside). *)
Example C02_pre_satisfiable :
  let g := mkG 4 250 in
  let h := [(1000, WAdd Pass 3); (1100, WAdd Rt 40); (1300, WAdd Pass 2); (2100, WAdd Pass 5); (2600, WAdd Complete 1)] in
  exists slots, C02_pre g 2 500 (mkW 2 500) h slots 2700 /\
                sum_with_time g (mkW 2 500) slots 2700 Pass = ROk 0 /\
                sum_with_time g (mkW 2 500) slots 2700 Complete = ROk 1.
Proof.
  intros g h.
  destruct (run_writes g (ring0 g) h) as [slots|] eqn:E; [|vm_compute in E; discriminate].
  exists slots. split; [|split].
  - unfold C02_pre, read_pre. split; [reflexivity|]. split; [reflexivity|].
    split; [unfold wf_hist; simpl; repeat split; discriminate|].
    split; [|split; [discriminate|exact E]].
    intros ev Hin. simpl in Hin.
    repeat (destruct Hin as [<-|Hin]; [discriminate|]). destruct Hin.
  - vm_compute in E. inversion E; subst slots. vm_compute. reflexivity.
  - vm_compute in E. inversion E; subst slots. vm_compute. reflexivity.
Qed.
