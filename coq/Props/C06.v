(** C06 — Hotspot QPS limiting is a per-parameter token bucket with no cross-talk.
    Statements only. *)
From SV Require Import Model.Base Model.Hotspot Spec.C06Spec Proofs.C06Proofs.
Open Scope N_scope.

(** The bound, for every threshold q, burst b, duration D > 0 and every non-decreasing
    request sequence of one value, of any length:
      D * admitted <= D * (q + b) + q * (t_last - t_first). *)
Theorem C06_bucket_bound : forall q b D l,
  0 < D -> nondecr_t (first_time l) l -> bound_ok q b D l (tb_run q b D None l) = true.
Proof. exact tb_bound. Qed.

(** A request is rejected only when the value's threshold is 0, the batch exceeds q + b, or
    the tokens available (after the refill the elapsed time allows) are fewer than the batch;
    a rejection changes nothing. *)
Theorem C06_reject_only_if_insufficient : forall q b D st now n st',
  tb_step q b D st now n = (st', false) ->
  st' = st /\
  (q = 0 \/ q + b < n \/
   match st with
   | None => False
   | Some (last, rest) =>
       (now - last <= D /\ rest < n) \/
       (D < now - last /\ (q + b < n \/ (now - last) * q / D + rest < n))
   end).
Proof. exact tb_reject_cause. Qed.

(** No cross-talk: in any mixed traffic over any number of values, the decisions the rule's
    controller takes for value v are exactly those of v's own reference bucket (with v's
    override if it has one) run over v's requests alone. *)
Theorem C06_noninterference : forall r l v,
  proj_dec v l (map is_pass (ctl_run (hctl0 r) l)) =
  tb_run (thr_of r v) (h_burst r) (h_dur r * 1000) None (proj v l).
Proof. exact ctl_noninterference. Qed.

(** the controller never waits and never hangs while both counters know the same values *)
Theorem C06_step_refines_bucket : forall c v n now,
  synced c ->
  let '(c', r) := reject_check c v n now in
  let q := thr_of (hc_rule c) v in
  let '(st', d) := tb_step q (h_burst (hc_rule c)) (h_dur (hc_rule c) * 1000) (st_of c v) now n in
  synced c' /\ hc_rule c' = hc_rule c /\ is_pass r = d /\ r <> HStuck /\ (forall ms, r <> HWait ms) /\
  st_of c' v = st' /\ (forall v', v' <> v -> st_of c' v' = st_of c v').
Proof. exact reject_check_ref. Qed.

Example C06_example :
  let r := mkHR 1 HReject 2 1 1 0 0 0 [(7, 1)] in
  map is_pass (ctl_run (hctl0 r) [(5000, 3, 2); (5000, 7, 1); (5000, 3, 1); (5000, 3, 1); (5000, 7, 1); (6001, 3, 2)])
  = [true; true; true; false; true; true].
Proof. vm_compute. reflexivity. Qed.
