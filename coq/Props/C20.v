(** C20 — Tower middleware calls the service iff admitted and always releases admission.
    Statements only. *)
From SV Require Import Model.Base Model.Tower Spec.C20Spec Proofs.C20Proofs.
Open Scope N_scope.

(** For every isolation threshold, with and without fallback, and every sequence of requests
    whose inner outcome is ready Ok / ready Err / pending-then-Ok / pending-then-Err (some
    futures dropped before completion): a request is admitted iff Sentinel admits an entry, the
    inner service is called exactly once for admitted requests and never for rejected ones
    (which get the fallback response or an error), and after every completed call — response or
    error — the in-flight count is back to its previous value.  Futures dropped before
    completion keep their admission; this is tracked by the predicate and reported, not asserted
    to be released. *)
Theorem C20_contract : forall thr fb l k, ok_c20 thr fb k l (trun_tower thr fb k l) = true.
Proof. intros thr fb l k. exact (c20_holds thr fb l k). Qed.

Theorem C20_release_on_every_path : forall thr fb l,
  forallb (fun q => negb (q_drop q)) l = true ->
  forallb (fun o => o_inflight o =? 0) (trun_tower thr fb 0 l) = true.
Proof. exact c20_no_leak. Qed.

(** from any number in flight and for any requests: what is in flight at the end is what was in flight at the
    start plus one per future dropped before completion; response, inner error, rejection and fallback all give
    the admission back *)
Theorem C20_inflight_accounting : forall thr fb l k,
  last_inflight k (trun_tower thr fb k l) = k + dropped (trun_tower thr fb k l).
Proof. intros thr fb l k. exact (c20_inflight_accounting thr fb l k). Qed.

Example C20_example :
  trun_tower 1 1 0 [mkQ ReadyErr false; mkQ PendOk false; mkQ PendErr true; mkQ ReadyOk false] =
  [mkTO 1 TRErr 0 1; mkTO 1 TROkInner 0 3; mkTO 1 TRDropped 1 1; mkTO 0 TROkFallback 1 0].
Proof. vm_compute. reflexivity. Qed.
