(** C09 — System protection rejects inbound traffic exactly when a system metric trips.
    Statements only. *)
From SV Require Import Model.Base Model.F64 Model.LeapArray Model.World Model.System
  Spec.C02Spec Spec.WorldSpec Spec.C09Spec Proofs.C02Proofs Proofs.WorldProofs Proofs.C09Proofs.
Open Scope N_scope.

(** For every servable configuration, every list of system rules (five metric types, both
    strategies, any threshold incl. NaN), any injected load / CPU readings and every history of
    inbound and outbound entries (any batch), exits in any order, clock advances and changes of
    the readings: an inbound entry is rejected exactly when some rule trips on the readings
    computed from the outcomes so far — inbound QPS, inbound concurrency and average response
    time trip at or above the threshold; load and CPU trip only strictly above it and, under BBR,
    only if more than one inbound request is in flight and their number exceeds the estimated
    capacity (best completed-per-second rate of a bucket times minimum response time) — the
    block carries the first tripping rule and the observed value; outbound entries are never
    affected and do not touch the inbound totals. *)
Theorem C09_decision_table : forall c rs base load cpu ops,
  geom_ok c -> iv (c_total c) <= base ->
  ok_c09 c rs (mkSG base [] 0 load cpu []) ops
         (srun (mkSW c base (fresh_node c) load cpu rs []) ops) = true.
Proof. exact c09_holds. Qed.

(** the largest single-bucket sum of a window read is the one computed from the events (the
    C02 theorems for sums and minimum, extended to the BBR estimate's input) *)
Theorem C09_max_single_bucket_exact : forall g wsc wiv w h slots now ev,
  read_pre g wsc wiv w h slots now ->
  win_max_single g w slots now ev = ROk (spec_max_single g w now ev h).
Proof. exact max_single_exact. Qed.

Example C09_example :
  let rs := [mkSR 1 MConc false (f64_of_Z 2)] in
  srun (mkSW default_cfg 20000 (fresh_node default_cfg) (f64_of_Z 0) (f64_of_Z 0) rs [])
    [SB 1 1 true; SB 2 1 true; SB 3 1 true; SB 4 1 false; SX 1; SB 5 1 true] =
  [SOAdmit; SOAdmit; SOBlock 1 (f64_of_Z 2); SOAdmit; SOExited; SOAdmit].
Proof. vm_compute. reflexivity. Qed.
