(** C04 — Every entry is accounted exactly once.  Statements only. *)
From SV Require Import Model.Base Model.LeapArray Model.World Spec.WorldSpec Spec.C04Spec
  Proofs.WorldProofs Proofs.C04Proofs.
Open Scope N_scope.

(** For every configuration with a servable geometry, every set of (well-formed) flow
    controllers and isolation rules on any resources, every starting time of at least one
    ring interval, and every history of builds (any resource, batch, inbound/outbound, blocked
    by any rule family incl. an arbitrary extra slot), exits in any order, clock advances and
    reads: no command panics, each build is answered by admit xor block, and every read of a
    resource node or of the inbound node returns exactly what the outcomes so far imply. *)
Theorem C04_accounting : forall c base fl iso ops,
  geom_ok c -> iv (c_total c) <= base -> flow_ok c base fl ->
  ok_c04 c (ghost0 base) ops (run_typed (world0 c base fl iso) ops) = true.
Proof. exact c04_accounting. Qed.

(** The controllers the rule manager derives from a rule's statistic interval satisfy the
    well-formedness premise. *)
Theorem C04_generated_controllers_ok : forall c interval now rule t,
  geom_ok c -> interval <= now -> fctl_rel c [] now (mkF rule t (stat_for c interval)).
Proof. exact stat_for_ok. Qed.

Theorem C04_default_config_ok : geom_ok default_cfg.
Proof. exact default_cfg_ok. Qed.

(** Non-vacuity: a history with an admission, a rejection by an isolation rule, an exit and
    reads, evaluated on the model; the read after the exit shows one completion with the
    batch count and the response time. *)
Example C04_example :
  let fl := fun _ : N => [mkF 1 (TFin 5 0) (stat_for default_cfg 0)] in
  let iso := fun _ : N => [(2, 2)] in
  run_typed (world0 default_cfg 20000 fl iso)
    [WB 1 0 2 true None; WB 2 0 2 true None; WA 300; WX 1; WR 0; WRI] =
  [ZAdmit; ZBlock 2 2 1; ZTick; ZExited; ZRead 0 2 2 2 300; ZRead 0 2 2 2 300].
Proof. vm_compute. reflexivity. Qed.
