(** C05 — Concurrency caps hold and are reported rightly (isolation part).
    Statements only. *)
From SV Require Import Model.Base Model.LeapArray Model.World Spec.WorldSpec Spec.C05Spec
  Proofs.WorldProofs Proofs.C05Proofs.
Open Scope N_scope.

(** For every set of isolation rules on any resources and every history of builds (any batch),
    exits in any order and clock advances: a build with batch n while k entries of the resource
    are in flight is admitted exactly when k + n <= T for every rule (so capacity freed by an
    exit is usable by the very next request); a rejection is an Isolation block naming a rule
    whose bound is exceeded and carrying k. *)
Theorem C05_isolation_exact : forall c base rules ops,
  geom_ok c -> iv (c_total c) <= base -> forallb no_extra ops = true ->
  ok_c05_iso rules base ops (run_typed (world0 c base (fun _ => []) rules) ops) = true.
Proof. exact c05_isolation_exact. Qed.

(** With batch counts of at least 1 the in-flight entries never exceed any threshold. *)
Theorem C05_isolation_cap : forall c base rules ops gh',
  geom_ok c -> iv (c_total c) <= base -> forallb no_extra ops = true -> forallb batch_pos ops = true ->
  ghost_after (ghost0 base) ops (run_typed (world0 c base (fun _ => []) rules) ops) = Some gh' ->
  forall res r t, In (r, t) (rules res) -> g_fly gh' res <= t.
Proof. exact c05_isolation_cap. Qed.

Example C05_example :
  run_typed (world0 default_cfg 20000 (fun _ => []) (fun _ => [(3, 2)]))
    [WB 1 0 1 false None; WB 2 0 1 false None; WB 3 0 1 false None; WX 1; WB 4 0 1 false None] =
  [ZAdmit; ZAdmit; ZBlock 2 3 2; ZExited; ZAdmit].
Proof. vm_compute. reflexivity. Qed.
