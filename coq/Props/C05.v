(** C05 — Concurrency caps (isolation, hotspot concurrency) hold and are reported rightly.
    Statements only. *)
From SV Require Import Model.Base Model.LeapArray Model.World Spec.WorldSpec Spec.C05Spec
  Proofs.WorldProofs Proofs.C05Proofs.
From SV Require Import Model.Hotspot Spec.C05hSpec Proofs.C05hProofs.
From SV Require Import Model.F64 Model.Throttle Spec.C07Spec Spec.MultiSpec Proofs.C07Proofs Proofs.MultiProofs.
Open Scope N_scope.

(** For every set of isolation rules on any resources and every history of builds (any batch),
    exits in any order and clock advances: a build with batch n while k entries of the resource
    are in flight is admitted exactly when k + n <= T for every rule (so capacity freed by an
    exit is usable by the very next request); a rejection is an Isolation block naming a rule
    whose bound is exceeded and carrying k.  Stated for the isolation family on its own: no flow rules are
    loaded ([fun _ => []]) and the history consists of builds, exits and clock advances only ([no_extra]);
    several hotspot rules together are C05_hotspot_exact_multi below. *)
Theorem C05_isolation_exact : forall c base rules ops,
  geom_ok c -> iv (c_total c) <= base -> forallb no_extra ops = true ->
  ok_c05_iso rules base ops (run_typed (world0 c base (fun _ => []) rules) ops) = true.
Proof. exact c05_isolation_exact. Qed.

(** With batch counts of at least 1 the in-flight entries never exceed any threshold. *)
Theorem C05_isolation_cap : forall c base rules ops gh',
  geom_ok c -> iv (c_total c) <= base -> forallb no_extra ops = true -> forallb batch_pos ops = true ->
  ghost_after (ghost0 base) ops (run_typed (world0 c base (fun _ => []) rules) ops) = Some gh' ->
  forall res r t, In (r, t) (rules res) -> g_fly gh' res <= t.
Proof. exact c05_isolation_cap. Qed.

Example C05_example :
  run_typed (world0 default_cfg 20000 (fun _ => []) (fun _ => [(3, 2)]))
    [WB 1 0 1 false None; WB 2 0 1 false None; WB 3 0 1 false None; WX 1; WB 4 0 1 false None] =
  [ZAdmit; ZAdmit; ZBlock 2 3 2; ZExited; ZAdmit].
Proof. vm_compute. reflexivity. Qed.

(** Hotspot concurrency rules: for every concurrency rule r whose threshold and per-value
    overrides are at least 1, every start time and every history of builds (positional or keyed
    parameters, negative indices, missing parameters, any batch), exits in any order and clock
    advances: a build with parameter value v, while k entries with that value are open, is
    admitted exactly when k + 1 <= T_v, where T_v is v's override if it has one and the rule
    threshold otherwise; a rejection names the rule and carries k + 1; builds without an
    extractable value are admitted. *)
Theorem C05_hotspot_exact : forall r base ops,
  h_kind r = HConc ->
  ok_c05h r [] ops (hrun (mkHW base [hctl0 r] []) ops) = true.
Proof. exact c05h_holds_init. Qed.

(** ... so the entries open at the same time with value v never exceed T_v. *)
Theorem C05_hotspot_cap : forall r base ops v,
  h_kind r = HConc ->
  count_open r v (open_after [] ops (hrun (mkHW base [hctl0 r] []) ops)) <= thr_of r v.
Proof. exact c05h_cap. Qed.

(** Several concurrency rules on one resource (checked in order, the first that is full blocks;
    an entry rejected by a later rule takes no place in an earlier one): the same statement. *)
Theorem C05_hotspot_exact_multi : forall rs base ops,
  Forall (fun r => h_kind r = HConc) rs ->
  ok_c05h_multi rs [] ops (hrun (mkHW base (map hctl0 rs) []) ops) = true.
Proof. exact c05h_multi_holds. Qed.

Example C05_hotspot_example :
  let r := mkHR 1 HConc 2 0 0 0 0 0 [(9, 1)] in
  hrun (mkHW 1000 [hctl0 r] [])
    [HB 1 (Some [5]) None 1; HB 2 (Some [5]) None 3; HB 3 (Some [5]) None 1; HB 4 (Some [9]) None 1;
     HB 5 (Some [9]) None 1; HX 1; HB 6 (Some [5]) None 1] =
  [HOAdmit 1000; HOAdmit 1000; HOBlock 1 3 1000; HOAdmit 1000; HOBlock 1 2 1000; HOExited; HOAdmit 1000].
Proof. vm_compute. reflexivity. Qed.
