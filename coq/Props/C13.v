(** C13 — Slot chain contract.  Statements only. *)
From SV Require Import Model.Base Model.SlotChain Spec.C13Spec Proofs.C13Proofs.
Open Scope N_scope.

(** For every set of slots added in any order, every chain order that is an ascending
    arrangement of them (whatever the unstable sort did with equal keys), and every
    assignment of results to the check slots, the run satisfies the C13 predicate: all
    preparation slots, then the checks ascending, then the statistic slots ascending, each
    exactly once; blocked iff some check blocked, with the type of a check that blocked;
    one pass-or-blocked notification per statistic slot, one completion on exit iff
    admitted. *)
Theorem C13_contract_any_sorted_chain : forall pre chk stat c res,
  is_chain_of pre (ch_pre c) -> is_chain_of chk (ch_chk c) -> is_chain_of stat (ch_stat c) ->
  let '(r, tb, te) := build_and_exit c res in ok_C13 pre chk stat res r tb te = true.
Proof. exact model_satisfies_spec. Qed.

(** ... in particular for the chain the model's add_* builds. *)
Theorem C13_contract : forall pre chk stat res,
  let c := mkChain (add_all pre) (add_all chk) (add_all stat) in
  let '(r, tb, te) := build_and_exit c res in ok_C13 pre chk stat res r tb te = true.
Proof. exact model_add_satisfies_spec. Qed.

(** The model's add_* always yields an ascending arrangement of what was added. *)
Theorem C13_add_sorts : forall added, is_chain_of added (add_all added).
Proof. exact add_all_chain. Qed.

(** The multiset test used by the predicate is sound. *)
Theorem C13_perm_test_sound : forall l1 l2,
  perm_b l1 l2 = true -> forall x, count_sl x l1 = count_sl x l2.
Proof. exact perm_b_sound. Qed.

(** Non-vacuity: a chain with equal order values, a blocking and a waiting check. *)
Example C13_example :
  let pre := [mkS 1 5; mkS 2 1] in
  let chk := [mkS 3 7; mkS 4 7; mkS 5 2] in
  let stat := [mkS 6 9; mkS 7 3] in
  let res := fun id => if id =? 4 then CBlocked 11 else if id =? 5 then CWait 100 else CPass in
  let c := mkChain (add_all pre) (add_all chk) (add_all stat) in
  build_and_exit c res =
  (Some 11,
   [EPrep (mkS 2 1); EPrep (mkS 1 5); ECheck (mkS 5 2); ECheck (mkS 3 7); ECheck (mkS 4 7);
    EBlocked (mkS 7 3) 11; EBlocked (mkS 6 9) 11], []).
Proof. vm_compute. reflexivity. Qed.
