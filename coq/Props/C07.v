(** C07 — Throttling paces admissions, bounds queueing and really delays the caller.
    Statements only. *)
From SV Require Import Model.Base Model.F64 Model.Throttle Model.Hotspot Spec.C07Spec Spec.C07SpecExec
  Proofs.C07Proofs.
From SV Require Import Spec.C05hSpec Spec.MultiSpec Proofs.C05hProofs Proofs.MultiProofs.
Open Scope Z_scope.

(** The reference pacer: whatever the arrival times, costs and queue limit, consecutive
    admissions are scheduled at least the later one's cost apart. *)
Theorem C07_spacing : forall strict maxq l s,
  spaced s (admissions l (pace_run strict maxq s l)).
Proof. exact pace_spaced. Qed.

(** An admitted request is scheduled either at its arrival or later, exactly one cost after
    the previous admission, and then its wait is within the queue limit (strictly below it
    for hotspot rules, at most it for flow rules). *)
Theorem C07_queue_bound : forall strict s t cost maxq s' sch,
  pace strict s t cost maxq = (s', Some sch) ->
  s' = sch /\ s + cost <= sch /\
  (sch = t \/ (t < sch /\ sch = s + cost /\ (if strict then sch - t < maxq else sch - t <= maxq))).
Proof. exact pace_queue_bound. Qed.

(** A request is rejected exactly when it would have to wait longer than allowed, and a
    rejection leaves the schedule unchanged. *)
Theorem C07_reject_iff : forall strict s t cost maxq,
  (exists s', pace strict s t cost maxq = (s', None)) <->
  (t < s + cost /\ (if strict then maxq <= s + cost - t else maxq < s + cost - t)).
Proof. exact pace_reject_iff. Qed.

Theorem C07_reject_keeps_state : forall strict s t cost maxq s',
  pace strict s t cost maxq = (s', None) -> s' = s.
Proof. exact pace_reject_keeps_state. Qed.

(** Flow throttling (nanosecond clock, cost = the rule's float computation of
    batch / threshold * interval): for every rule and every history of builds and clock
    advances on which no i64 overflow occurs, every build is answered as the reference pacer
    prescribes (threshold <= 0 or batch > threshold: rejected), and the clock observed when
    build returns equals the scheduled time: the caller was held until then. *)
Theorem C07_flow_refines_pacer : forall r ops s now,
  has_panic (trun (mkTW now [(r, s)]) ops) = false ->
  ok_c07_flow r s now ops (trun (mkTW now [(r, s)]) ops) = true.
Proof. exact c07_flow_holds. Qed.

(** Several throttling rules on one resource: each keeps its own schedule, they are consulted
    in order on the advancing clock (a queued request sleeps before the next rule is asked), the
    first refusal rejects; the clock when build returns is the last scheduled time, hence not
    before any rule's scheduled time. *)
Theorem C07_flow_refines_pacers_multi : forall cs ops now,
  has_panic (trun (mkTW now cs) ops) = false ->
  ok_c07_flow_multi cs now ops (trun (mkTW now cs) ops) = true.
Proof. exact c07_flow_multi_holds. Qed.

(** Hotspot QPS throttling (millisecond clock, cost = round(batch * duration / q_v), strict
    queue limit), per parameter value with per-value overrides, in any mixed traffic: same
    statement, with one independent pacer per value. *)
Theorem C07_hotspot_refines_pacer : forall r ops c now open,
  hc_rule c = r -> h_kind r = HThrottle ->
  ok_c07_hot r (hc_time c) now ops (hrun (mkHW now [c] open) ops) = true.
Proof. exact c07_hot_holds. Qed.

Example C07_flow_example :
  (* 2 per second, queue up to 600 ms: a batch of 2 would have to wait 1000 ms and is rejected;
     the next single call waits 500 ms *)
  let r := mkTR 1 (f64_of_Z 2) 600 1000 in
  trun (mkTW 5000000000 [(r, 0)]) [TB 1; TB 2; TB 1; TA 400000000; TB 1] =
  [TOAdmit 5000000000; TOBlock 1 5000000000; TOAdmit 5500000000; TOTick; TOAdmit 6000000000].
Proof. vm_compute. reflexivity. Qed.
