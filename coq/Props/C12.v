(** C12 — Valid rules are enforceable without panics; invalid input never poisons Sentinel.
    Statements only.  The panic points of the code are explicit outcomes of the models
    (ZPanic / HOHang / TOPanic / SBroken / RPanic); these theorems show they are unreachable, and
    that validity implies the premises of the family theorems. *)
From SV Require Import Model.Base Model.F64 Model.LeapArray Model.World Model.Hotspot Model.Breaker Model.Rules
  Model.Manager Spec.WorldSpec Spec.C04Spec Spec.C06Spec Spec.C10Spec Run.Common Run.RunMgr Run.RunC10
  Proofs.WorldProofs Proofs.C04Proofs Proofs.C06Proofs Proofs.C10Proofs Proofs.C12Proofs.
Open Scope N_scope.

(** every flow rule, whatever its statistic interval, gets a working statistic *)
Theorem C12_flow_statistic_always_built : forall c interval, geom_ok c -> stat_for c interval <> SBroken.
Proof. exact stat_for_never_broken. Qed.

(** entries on resources with any flow (reject) and isolation rules and any other blocking
    slot: no build, exit or read panics (the accounting predicate fails on a panic outcome) *)
Theorem C12_entries_never_panic : forall c base fl iso ops,
  geom_ok c -> iv (c_total c) <= base -> flow_ok c base fl ->
  ok_c04 c (ghost0 base) ops (run_typed (world0 c base fl iso) ops) = true.
Proof. exact c04_accounting. Qed.

(** a resource guarded by any hotspot rules never hangs in the checker's retry loop *)
Theorem C12_hotspot_never_hangs : forall rules base ops,
  ~ In HOHang (hrun (mkHW base (map hctl0 rules) []) ops).
Proof. exact hotspot_never_hangs. Qed.

(** the managers' rebuild never indexes outside the old controller list and gives every rule of the
    resource exactly one controller (so no rule manager operation has a panic outcome) *)
Theorem C12_manager_total : forall iso nres pool ops,
  mrun iso nres pool mgr0 ops = ref_run iso nres pool ref0 ops.
Proof. exact c10_refines. Qed.

(** validity gives the premises of the family theorems *)
Theorem C12_valid_breaker_premises : forall r,
  valid_cb r = true -> 0 < cr_interval r /\ 0 < cr_retry r /\ cr_res_empty r = false.
Proof. exact valid_cb_premises. Qed.
Theorem C12_valid_hotspot_premises : forall r,
  valid_hot r = true -> hr_res_empty r = false /\ (hr_qps r = true -> 0 < hr_dur r).
Proof. exact valid_hot_premises. Qed.
Theorem C12_valid_isolation_premises : forall r,
  valid_iso r = true -> 0 < ir_thr r /\ ir_res_empty r = false.
Proof. exact valid_iso_premises. Qed.
