(** C19 — metric log.  Statements only; proofs in Proofs/C19Proofs.v.
    The writer's index invariant and the torn-tail lemma hold for every history; search
    correctness across files and after a crash is evaluated on traces (Spec/C19Spec.v), see DESIGN. *)
From SV Require Import Model.Base Model.MetricLine Model.MetricLog Spec.C19Inv Proofs.C19Proofs.
Open Scope N_scope.

(** whatever is written, at any timestamps, with any limits: every file in the directory is the
    image of the items written to it, and every index entry (second, offset) points at the first
    line of that second in the same file, with the seconds increasing *)
Theorem C19_index_points_at_seconds : forall now max_size max_files w0 ws,
  writer_new now max_size max_files = Some w0 ->
  Forall (fun x => Forall name_ok (snd x)) ws ->
  Forall file_ok (w_dir (after_writes w0 ws)).
Proof. exact c19_index_points_at_seconds. Qed.

(** the number of retained files never exceeds the limit (at least one file is kept) *)
Theorem C19_retention : forall now max_size max_files w0 ws,
  writer_new now max_size max_files = Some w0 ->
  N.of_nat (length (w_dir (after_writes w0 ws))) <= N.max max_files 1.
Proof. exact c19_retention. Qed.

(** a log cut at any byte reads back as the complete lines before the cut, in order, plus at most
    one partial last line: a torn tail can lose or garble one line only *)
Theorem C19_torn_tail : forall items k,
  Forall name_ok items ->
  exists n partial,
    split_lines (firstn k (log_of items)) [] = map to_line (firstn n items) ++ partial /\
    (length partial <= 1)%nat /\
    (length (log_of (firstn n items)) <= k)%nat.
Proof. exact c19_torn_tail. Qed.

(** every complete line parses back to the item that was written (up to the separator in names) *)
Theorem C19_lines_parse_back : forall i, item_wf i -> from_line (to_line i) = Some (norm i).
Proof. exact c19_lines_parse_back. Qed.
