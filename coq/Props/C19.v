(** C19 — metric log.  Statements only; proofs in Proofs/C19*.v.
    For every write history: index invariant, retention, the directory is well formed, and a search by time
    returns exactly the retained items of the interval; on every well-formed directory both searches are
    exact / a prefix not cut short; with the last file torn by a crash both searches return what the
    completely written part prescribes plus at most one item read from the torn line. *)
From SV Require Import Model.Base Model.MetricLine Model.MetricLog Spec.C19Inv Spec.C19Search Proofs.C19Proofs Spec.C19Crash Spec.C19CrashPoint Proofs.C19SearchProofs Proofs.C19GoodProofs Proofs.C19CrashProofs Proofs.C19CrashPointProofs.
Open Scope N_scope.

(** whatever is written, at any timestamps, with any limits: every file in the directory is the
    image of the items written to it, and every index entry (second, offset) points at the first
    line of that second in the same file, with the seconds increasing *)
Theorem C19_index_points_at_seconds : forall now max_size max_files w0 ws,
  writer_new now max_size max_files = Some w0 ->
  Forall (fun x => Forall name_ok (snd x)) ws ->
  Forall file_ok (w_dir (after_writes w0 ws)).
Proof. exact c19_index_points_at_seconds. Qed.

(** the number of retained files never exceeds the limit (at least one file is kept) *)
Theorem C19_retention : forall now max_size max_files w0 ws,
  writer_new now max_size max_files = Some w0 ->
  N.of_nat (length (w_dir (after_writes w0 ws))) <= N.max max_files 1.
Proof. exact c19_retention. Qed.

(** a log cut at any byte reads back as the complete lines before the cut, in order, plus at most
    one partial last line: a torn tail can lose or garble one line only *)
Theorem C19_torn_tail : forall items k,
  Forall name_ok items ->
  exists n partial,
    split_lines (firstn k (log_of items)) [] = map to_line (firstn n items) ++ partial /\
    (length partial <= 1)%nat /\
    (length (log_of (firstn n items)) <= k)%nat.
Proof. exact c19_torn_tail. Qed.

(** every complete line parses back to the item that was written (up to the separator in names) *)
Theorem C19_lines_parse_back : forall i, item_wf i -> from_line (to_line i) = Some (norm i).
Proof. exact c19_lines_parse_back. Qed.

(** on every well-formed directory (any number of files, any sizes): a search by time range and
    resource returns exactly the items from the first indexed second at or after the begin second,
    in write order, up to the end second, of the requested resource - reading on across files *)
Theorem C19_find_by_time_exact : forall fs begin_ms end_ms res,
  good_dir fs ->
  find_by_time (map conc fs) begin_ms end_ms res = expected_by_time fs (begin_ms / 1000) (end_ms / 1000) res.
Proof. exact c19_find_by_time_exact. Qed.

(** [ws_ok] (Spec/C19CrashPoint.v): what is written has timestamps and items printable, names without line feed *)

(** every directory the writer leaves behind is well formed (files in listing order, index entries right,
    seconds never decreasing along the directory) as long as no file reaches 2^64 bytes ... *)
Theorem C19_written_directory_is_good : forall now max_size max_files w0 ws,
  writer_new now max_size max_files = Some w0 -> ws_ok ws ->
  Forall (fun f => N.of_nat (length (f_log f)) < U64) (w_dir (after_writes w0 ws)) ->
  exists fs, good_dir fs /\ w_dir (after_writes w0 ws) = map conc fs.
Proof. exact c19_written_dir_good. Qed.

(** ... so after any history of writes a search by time range and resource returns exactly the retained
    items from the first indexed second at or after the begin second, in write order, up to the end second *)
Theorem C19_search_after_writes : forall now max_size max_files w0 ws,
  writer_new now max_size max_files = Some w0 -> ws_ok ws ->
  Forall (fun f => N.of_nat (length (f_log f)) < U64) (w_dir (after_writes w0 ws)) ->
  exists fs, good_dir fs /\ w_dir (after_writes w0 ws) = map conc fs /\
    forall begin_ms end_ms res,
      find_by_time (w_dir (after_writes w0 ws)) begin_ms end_ms res =
      expected_by_time fs (begin_ms / 1000) (end_ms / 1000) res.
Proof.
  intros now max_size max_files w0 ws H1 H2 H3.
  destruct (c19_written_dir_good now max_size max_files w0 ws H1 H2 H3) as [fs [G E]].
  exists fs. split; [exact G|]. split; [exact E|].
  intros b e res. rewrite E. apply c19_find_by_time_exact. exact G.
Qed.

(** the search from a time with a line limit, on every well-formed directory: a prefix, in write order, of
    what lies behind the first indexed second at or after the begin second; never cut short (everything, or
    at least [max] lines); what exceeds the limit belongs to the second of the last line within it *)
Theorem C19_find_max_lines_prefix : forall fs begin_ms max,
  good_dir fs ->
  match from_first_entry fs (begin_ms / 1000) with
  | None => find_max_lines (map conc fs) begin_ms max = []
  | Some items => max_ok items max (find_max_lines (map conc fs) begin_ms max)
  end.
Proof. exact c19_find_max_lines_prefix. Qed.

(** a crash tore the last file ([torn_ok2]: the log cut inside a line at any byte; the index cut inside an entry
    at any byte, possibly after one complete entry whose first line is the torn one - the writer issues an
    index entry before the lines of its second): the search by time returns exactly what the completely written part prescribes, plus at most one item read from the torn line *)
Theorem C19_search_by_time_after_crash : forall fs day no t begin_ms end_ms res,
  torn_ok2 t -> Forall name_ok (t_items t) ->
  good_dir (fs ++ [cut_file day no t]) ->
  exists extra, (length extra <= 1)%nat /\
    find_by_time (map conc fs ++ [torn_file day no t]) begin_ms end_ms res =
    expected_by_time (fs ++ [cut_file day no t]) (begin_ms / 1000) (end_ms / 1000) res ++ extra.
Proof. exact c19_search_by_time_after_crash2. Qed.

(** ... and so does the search with a line limit *)
Theorem C19_search_max_lines_after_crash : forall fs day no t begin_ms max,
  torn_ok2 t -> Forall name_ok (t_items t) ->
  good_dir (fs ++ [cut_file day no t]) ->
  exists extra, (length extra <= 1)%nat /\
    match from_first_entry (fs ++ [cut_file day no t]) (begin_ms / 1000) with
    | None => find_max_lines (map conc fs ++ [torn_file day no t]) begin_ms max = extra
    | Some items => exists out, max_ok items max out /\
                    find_max_lines (map conc fs ++ [torn_file day no t]) begin_ms max = out ++ extra
    end.
Proof. exact c19_search_max_lines_after_crash2. Qed.

(** a crash at ANY byte of what one write issues (the 16 index bytes of a new second first, then the lines), after
    any history: the directory left behind is a torn directory in the sense above; nothing written earlier is lost,
    and of the new items exactly those whose lines were issued completely are there ... *)
Theorem C19_crash_point_is_torn : forall now max_size max_files w0 ws ts items k d,
  writer_new now max_size max_files = Some w0 -> ws_ok (ws ++ [(ts, items)]) ->
  Forall (fun f => N.of_nat (length (f_log f)) < U64) (w_dir (fst (mwrite (after_writes w0 ws) ts items))) ->
  crash k (w_dir (after_writes w0 ws)) (w_dir (fst (mwrite (after_writes w0 ws) ts items))) = Some d ->
  exists fs0 fs day no t n',
    good_dir fs0 /\ sorted_files (w_dir (after_writes w0 ws)) = map conc fs0 /\
    sorted_files d = map conc fs ++ [torn_file day no t] /\
    torn_ok2 t /\ Forall name_ok (t_items t) /\ good_dir (fs ++ [cut_file day no t]) /\
    flat_map a_items (fs ++ [cut_file day no t]) =
      flat_map a_items fs0 ++ firstn n' (map (with_ts ts) items) /\
    n' = complete_lines (map (with_ts ts) items)
           (N.to_nat (k - (if w_latest (after_writes w0 ws) <? ts / 1000 then 16 else 0))).
Proof. exact c19_crash_point_is_torn. Qed.

(** ... and a search by time on it returns exactly what that completely written part prescribes, plus at most
    one item read from the torn line; it never fails *)
Theorem C19_search_by_time_after_crash_point : forall now max_size max_files w0 ws ts items k d,
  writer_new now max_size max_files = Some w0 -> ws_ok (ws ++ [(ts, items)]) ->
  Forall (fun f => N.of_nat (length (f_log f)) < U64) (w_dir (fst (mwrite (after_writes w0 ws) ts items))) ->
  crash k (w_dir (after_writes w0 ws)) (w_dir (fst (mwrite (after_writes w0 ws) ts items))) = Some d ->
  exists fs0 fs day no t n',
    good_dir fs0 /\ sorted_files (w_dir (after_writes w0 ws)) = map conc fs0 /\
    good_dir (fs ++ [cut_file day no t]) /\
    flat_map a_items (fs ++ [cut_file day no t]) =
      flat_map a_items fs0 ++ firstn n' (map (with_ts ts) items) /\
    n' = complete_lines (map (with_ts ts) items)
           (N.to_nat (k - (if w_latest (after_writes w0 ws) <? ts / 1000 then 16 else 0))) /\
    forall begin_ms end_ms res, exists extra, (length extra <= 1)%nat /\
      find_by_time d begin_ms end_ms res =
      expected_by_time (fs ++ [cut_file day no t]) (begin_ms / 1000) (end_ms / 1000) res ++ extra.
Proof. exact c19_search_by_time_after_crash_point. Qed.

(** ... and so does the search with a line limit *)
Theorem C19_search_max_lines_after_crash_point : forall now max_size max_files w0 ws ts items k d,
  writer_new now max_size max_files = Some w0 -> ws_ok (ws ++ [(ts, items)]) ->
  Forall (fun f => N.of_nat (length (f_log f)) < U64) (w_dir (fst (mwrite (after_writes w0 ws) ts items))) ->
  crash k (w_dir (after_writes w0 ws)) (w_dir (fst (mwrite (after_writes w0 ws) ts items))) = Some d ->
  exists fs0 fs day no t n',
    good_dir fs0 /\ sorted_files (w_dir (after_writes w0 ws)) = map conc fs0 /\
    good_dir (fs ++ [cut_file day no t]) /\
    flat_map a_items (fs ++ [cut_file day no t]) =
      flat_map a_items fs0 ++ firstn n' (map (with_ts ts) items) /\
    n' = complete_lines (map (with_ts ts) items)
           (N.to_nat (k - (if w_latest (after_writes w0 ws) <? ts / 1000 then 16 else 0))) /\
    forall begin_ms max, exists extra, (length extra <= 1)%nat /\
      match from_first_entry (fs ++ [cut_file day no t]) (begin_ms / 1000) with
      | None => find_max_lines d begin_ms max = extra
      | Some items' => exists out, max_ok items' max out /\ find_max_lines d begin_ms max = out ++ extra
      end.
Proof. exact c19_search_max_lines_after_crash_point. Qed.
