(** C19 — metric log.  Statements only; proofs in Proofs/C19Proofs.v.
    The writer's index invariant and the torn-tail lemma hold for every history; search
    correctness across files and after a crash is evaluated on traces (Spec/C19Spec.v), see DESIGN. *)
From SV Require Import Model.Base Model.MetricLine Model.MetricLog Spec.C19Inv Spec.C19Search Proofs.C19Proofs Proofs.C19SearchProofs Proofs.C19GoodProofs.
Open Scope N_scope.

(** whatever is written, at any timestamps, with any limits: every file in the directory is the
    image of the items written to it, and every index entry (second, offset) points at the first
    line of that second in the same file, with the seconds increasing *)
Theorem C19_index_points_at_seconds : forall now max_size max_files w0 ws,
  writer_new now max_size max_files = Some w0 ->
  Forall (fun x => Forall name_ok (snd x)) ws ->
  Forall file_ok (w_dir (after_writes w0 ws)).
Proof. exact c19_index_points_at_seconds. Qed.

(** the number of retained files never exceeds the limit (at least one file is kept) *)
Theorem C19_retention : forall now max_size max_files w0 ws,
  writer_new now max_size max_files = Some w0 ->
  N.of_nat (length (w_dir (after_writes w0 ws))) <= N.max max_files 1.
Proof. exact c19_retention. Qed.

(** a log cut at any byte reads back as the complete lines before the cut, in order, plus at most
    one partial last line: a torn tail can lose or garble one line only *)
Theorem C19_torn_tail : forall items k,
  Forall name_ok items ->
  exists n partial,
    split_lines (firstn k (log_of items)) [] = map to_line (firstn n items) ++ partial /\
    (length partial <= 1)%nat /\
    (length (log_of (firstn n items)) <= k)%nat.
Proof. exact c19_torn_tail. Qed.

(** every complete line parses back to the item that was written (up to the separator in names) *)
Theorem C19_lines_parse_back : forall i, item_wf i -> from_line (to_line i) = Some (norm i).
Proof. exact c19_lines_parse_back. Qed.

(** on every well-formed directory (any number of files, any sizes): a search by time range and
    resource returns exactly the items from the first indexed second at or after the begin second,
    in write order, up to the end second, of the requested resource - reading on across files *)
Theorem C19_find_by_time_exact : forall fs begin_ms end_ms res,
  good_dir fs ->
  find_by_time (map conc fs) begin_ms end_ms res = expected_by_time fs (begin_ms / 1000) (end_ms / 1000) res.
Proof. exact c19_find_by_time_exact. Qed.

(** what is written: timestamps and items printable, names without line feed *)
Definition ws_ok (ws : list (N * list mitem)) : Prop :=
  Forall (fun x => fst x <= U64_MAX /\ Forall (fun i => item_wf (with_ts (fst x) i) /\ name_ok i) (snd x)) ws.

(** every directory the writer leaves behind is well formed (files in listing order, index entries right,
    seconds never decreasing along the directory) as long as no file reaches 2^64 bytes ... *)
Theorem C19_written_directory_is_good : forall now max_size max_files w0 ws,
  writer_new now max_size max_files = Some w0 -> ws_ok ws ->
  Forall (fun f => N.of_nat (length (f_log f)) < U64) (w_dir (after_writes w0 ws)) ->
  exists fs, good_dir fs /\ w_dir (after_writes w0 ws) = map conc fs.
Proof. exact c19_written_dir_good. Qed.

(** ... so after any history of writes a search by time range and resource returns exactly the retained
    items from the first indexed second at or after the begin second, in write order, up to the end second *)
Theorem C19_search_after_writes : forall now max_size max_files w0 ws,
  writer_new now max_size max_files = Some w0 -> ws_ok ws ->
  Forall (fun f => N.of_nat (length (f_log f)) < U64) (w_dir (after_writes w0 ws)) ->
  exists fs, good_dir fs /\ w_dir (after_writes w0 ws) = map conc fs /\
    forall begin_ms end_ms res,
      find_by_time (w_dir (after_writes w0 ws)) begin_ms end_ms res =
      expected_by_time fs (begin_ms / 1000) (end_ms / 1000) res.
Proof.
  intros now max_size max_files w0 ws H1 H2 H3.
  destruct (c19_written_dir_good now max_size max_files w0 ws H1 H2 H3) as [fs [G E]].
  exists fs. split; [exact G|]. split; [exact E|].
  intros b e res. rewrite E. apply c19_find_by_time_exact. exact G.
Qed.
