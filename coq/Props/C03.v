(** C03 — Circuit breakers follow the Closed / Open / Half-Open state machine.
    Statements only. *)
From SV Require Import Model.Base Model.F64 Model.LeapArray Model.Breaker Spec.C03Spec
  Proofs.RingClearProofs Proofs.C03Proofs.
Open Scope N_scope.

(** For every list of breaker rules of the three built-in strategies on a resource (any
    minimum request amount, threshold, window geometry, retry timeout), every start time not
    before one statistic interval, and every history of entries (some of them rejected by other
    rules), completions (fast or slow, ok or error, of any in-flight entry, in any order) and
    clock advances: the observable behaviour of the model — which entries are admitted, the
    block type, the transitions announced to listeners in order with their previous state, and
    the state and retry time of every breaker after every command — is exactly that of the
    abstract state machines of Spec/C03Spec.v:
      - Closed opens only at a completion when the minimum request amount is reached and the
        slow-ratio / error-ratio / error-count threshold is met among the completions whose
        bucket lies within the statistic window;
      - Open rejects every request until the retry timeout has elapsed, then lets exactly one
        probe through (Half-Open rejects);
      - the first completion in Half-Open closes the breaker and clears its statistics, or
        re-opens it with a new retry time, according to that request's own outcome;
      - a probe that is itself rejected returns the breaker to Open (retry time unchanged);
      - every state change is announced exactly once with the correct previous state. *)
Theorem C03_refines_state_machine : forall rules base ops,
  wf_rules rules base ->
  ok_c03 (map (fun r => (r, sm0)) rules) base [] ops
         (brun (mkBW base (map brk0 rules) []) ops) = true.
Proof. exact c03_refines. Qed.

(** Non-vacuity: error-count breaker, threshold 2, min 2: opens at the second error, rejects,
    probes after the retry timeout, closes on a good probe. *)
Example C03_example :
  let r := mkBR 1 ErrCount 1000 2 1000 2 0 (f64_of_Z 2) in
  map fst (brun (mkBW 5000 [brk0 r] [])
    [BB 1 false; BB 2 false; BX 1 true; BX 2 true; BB 3 false; BA 1000; BB 4 false; BB 5 false; BX 4 false; BB 6 false]) =
  [BOAdmit []; BOAdmit []; BOExited []; BOExited [(1, Closed, Open)]; BOBlock 3 []; BOTick;
   BOAdmit [(1, Open, HalfOpen)]; BOBlock 3 []; BOExited [(1, HalfOpen, Closed)]; BOAdmit []].
Proof. vm_compute. reflexivity. Qed.
