(** C08 — warm-up: the token-bucket facts that hold for every history.
    Statements only; proofs in Proofs/C08Proofs.v.  The numeric clauses of the property (allowed
    threshold between about q/c and q, monotone ramp, q within 2p+2 s) are evaluated on traces
    (Spec/C08Spec.v), see DESIGN. *)
From SV Require Import Model.Base Model.F64 Model.LeapArray Model.World Model.WarmUp Proofs.C08Proofs.
Open Scope N_scope.

(** the state after a history (a panicking command leaves the state unchanged) *)
Definition wfold (c : cfg) (w : wworld) (l : list wcmd) : wworld := fold_left (fun w x => fst (wexec c w x)) l w.

(** the stored tokens never exceed the maximum, for every rule and every history *)
Theorem C08_tokens_bounded : forall c base thr cold period l,
  let w := wfold c (wworld0 c base thr cold period) l in
  wu_stored (ww_wu w) <= wu_max (ww_wu w).
Proof. exact c08_tokens_bounded. Qed.

(** the warm-up range is never empty (unless saturated at the top of the u64 range) *)
Theorem C08_range_nonempty : forall thr cold period,
  wu_warning (wu_new thr cold period) < U64MAX ->
  wu_warning (wu_new thr cold period) < wu_max (wu_new thr cold period).
Proof. exact c08_range_nonempty. Qed.

(** refilling never overflows: no input makes sync_token panic *)
Theorem C08_sync_total : forall w now pq, sync_token w now pq <> WOverflow.
Proof. exact c08_sync_total. Qed.

(** below the warning line the rule allows exactly its threshold; the allowance depends on the
    stored tokens only through how far they are above the warning line *)
Theorem C08_warm_means_threshold : forall w, wu_stored w < wu_warning w -> allowed_of w = wu_thr w.
Proof. exact c08_warm_means_threshold. Qed.

(** while the previous interval passed at least floor(q/c) and the tokens are at or above the
    warning line, a new second only drains: tokens never grow *)
Theorem C08_drain_only : forall w now pq u,
  wu_warning w <= wu_stored w -> wu_stored w <= wu_max w ->
  flt pq (ffloor (fdiv (wu_thr w) (f64_of_N (wu_cold w)))) = false ->
  sync_token w now pq = WVal u -> wu_stored u <= wu_stored w.
Proof. exact c08_drain_only. Qed.

(** an idle period long enough for the refill to reach the maximum makes the rule cold again:
    the tokens are back at the maximum (minus what passed in the previous interval) *)
Theorem C08_idle_cools : forall w now pq u,
  wu_last w < now - now mod 1000 ->
  flt pq (ffloor (fdiv (wu_thr w) (f64_of_N (wu_cold w)))) = true ->
  wu_max w <= f64_to_u64 (fdiv (fmul (f64_of_N (now - now mod 1000 - wu_last w)) (wu_thr w)) f64_thousand) ->
  sync_token w now pq = WVal u ->
  wu_stored u = wu_max w - f64_to_u64 pq /\ wu_last u = now - now mod 1000.
Proof. exact c08_idle_cools. Qed.

(** more stored tokens never give a larger allowance (binary64, all roundings included): the
    allowed threshold is antitone in the tokens above the warning line *)
From SV Require Import Proofs.C08Float.
From Coq Require Import Reals.
From Flocq Require Import Core Binary.
Theorem C08_allowance_antitone_in_tokens : forall w s1 s2,
  is_finite 53 1024 (wu_thr w) = true -> (0 < B2R 53 1024 (wu_thr w))%R ->
  is_finite 53 1024 (wu_slope w) = true -> (0 <= B2R 53 1024 (wu_slope w))%R ->
  (wu_warning w <= s1)%N -> (s1 <= s2)%N ->
  is_finite 53 1024 (allowed_of (with_stored w s1)) = true ->
  is_finite 53 1024 (allowed_of (with_stored w s2)) = true ->
  fle (allowed_of (with_stored w s2)) (allowed_of (with_stored w s1)) = true.
Proof. exact c08_allowed_antitone. Qed.

(** for sane parameters (1 <= q <= 2^30, cold factor and period up to 2^20) the allowance lies between
    about q/c and about q whatever the stored tokens (all binary64 roundings included, slack 2^-40): the
    rule never allows more than q, and never less than about q/c *)
From SV Require Import Proofs.C08Bounds.
Theorem C08_allowance_between_cold_and_full : forall thr cold period s,
  is_finite 53 1024 thr = true ->
  (1 <= B2R 53 1024 thr <= 1073741824)%R ->
  (cold <= 1048576)%N -> (1 <= period <= 1048576)%N ->
  let w := wu_new thr cold period in
  (s <= wu_max w)%N ->
  let q := B2R 53 1024 thr in
  let c := IZR (Z.of_N (if (cold <=? 1)%N then 3%N else cold)) in
  let a := B2R 53 1024 (allowed_of (with_stored w s)) in
  is_finite 53 1024 (allowed_of (with_stored w s)) = true /\
  (q / c * (1 - / 1099511627776) <= a <= q * (1 + / 1099511627776))%R.
Proof. exact c08_allowance_bounds. Qed.

(** never more than about q per statistic interval: after every history, an entry is admitted only when the pass
    count of the current window plus its batch (added in binary64, as the code does) is at most q (1 + 2^-40) *)
From SV Require Import Proofs.C08Admit.
Theorem C08_admitted_within_threshold : forall c base thr cold period l batch w',
  is_finite 53 1024 thr = true -> (1 <= B2R 53 1024 thr <= 1073741824)%R ->
  (cold <= 1048576)%N -> (1 <= period <= 1048576)%N ->
  let w := wfold c (wworld0 c base thr cold period) l in
  wexec c w (WB batch) = (w', WOAdmit) ->
  exists cur, node_sum c (ww_node w) (ww_now w) Pass = ROk cur /\
    is_finite 53 1024 (fadd (f64_of_N cur) (f64_of_N batch)) = true /\
    (B2R 53 1024 (fadd (f64_of_N cur) (f64_of_N batch)) <= B2R 53 1024 thr * (1 + / 1099511627776))%R.
Proof. exact c08_admitted_within_threshold_fin. Qed.

(** never less than about q/c under saturating demand: an entry is rejected only when the pass count of the
    current window plus its batch exceeds q/c (1 - 2^-40) (or is beyond the binary64 range) *)
Theorem C08_blocked_only_above_cold_rate : forall c base thr cold period l batch w',
  is_finite 53 1024 thr = true -> (1 <= B2R 53 1024 thr <= 1073741824)%R ->
  (cold <= 1048576)%N -> (1 <= period <= 1048576)%N ->
  let w := wfold c (wworld0 c base thr cold period) l in
  wexec c w (WB batch) = (w', WOBlock) ->
  exists cur, node_sum c (ww_node w) (ww_now w) Pass = ROk cur /\
    (is_finite 53 1024 (fadd (f64_of_N cur) (f64_of_N batch)) = true ->
     (B2R 53 1024 thr / IZR (Z.of_N (if (cold <=? 1)%N then 3%N else cold)) * (1 - / 1099511627776)
        < B2R 53 1024 (fadd (f64_of_N cur) (f64_of_N batch)))%R).
Proof. exact c08_blocked_only_above_cold_rate. Qed.

(** the ramp: while the tokens stay at or above the warning line and the previous interval passed at least
    floor(q/c) - demand keeps saturating -, a new second never lowers the allowance (all roundings included) *)
From SV Require Import Proofs.C08Ramp.
Theorem C08_saturated_second_never_lowers_allowance : forall w now pq u,
  is_finite 53 1024 (wu_thr w) = true -> (0 < B2R 53 1024 (wu_thr w))%R ->
  is_finite 53 1024 (wu_slope w) = true -> (0 <= B2R 53 1024 (wu_slope w))%R ->
  (wu_warning w <= wu_stored w)%N -> (wu_stored w <= wu_max w)%N ->
  flt pq (ffloor (fdiv (wu_thr w) (f64_of_N (wu_cold w)))) = false ->
  sync_token w now pq = WVal u ->
  (wu_warning w <= wu_stored u)%N ->
  is_finite 53 1024 (allowed_of w) = true -> is_finite 53 1024 (allowed_of u) = true ->
  fle (allowed_of w) (allowed_of u) = true.
Proof. exact c08_saturated_second_never_lowers_allowance. Qed.
