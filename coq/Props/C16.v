(** C16 — circuit-breaker transitions are atomic under concurrency: one probe, one winner.
    Statements only; proofs in Proofs/C16Proofs.v.  Rule, prelude, thread programs and the
    schedule (which thread runs its next segment, and how far the clock moves before it) are
    universally quantified. *)
From SV Require Import Model.Base Model.LeapArray Model.Breaker Model.ConcCb Spec.C16Spec Proofs.C16Proofs.
Open Scope N_scope.

(** for every schedule: the listeners see a valid path of the state machine, each transition
    once; a request is admitted only while the breaker is Closed or as the one probe of the
    Open -> Half-Open transition it performed itself; that transition never happens before the
    retry deadline in force *)
Theorem C16_atomic_transitions_every_schedule : forall base r pre progs steps st ths tr,
  crun_case true base r pre progs steps = (st, ths, tr) ->
  ok_c16 r (s_log st) = true.
Proof. exact c16_every_schedule. Qed.

(** the state the listeners were told is the state the breaker is in *)
Theorem C16_listeners_in_step : forall base r pre progs steps st ths tr,
  crun_case true base r pre progs steps = (st, ths, tr) ->
  log_state Closed (s_log st) = s_state st.
Proof. exact c16_log_state. Qed.

(** every schedule lets every thread finish *)
Theorem C16_all_threads_finish : forall recheck base r pre progs steps st ths tr,
  crun_case recheck base r pre progs steps = (st, ths, tr) -> call_done ths = true.
Proof. exact c16_all_finish. Qed.

(** without the deadline re-check under the lock the property fails: a schedule on which a
    second probe is admitted right after the first one failed, before the new deadline *)
Theorem C16_unchecked_deadline_refuted : exists base r pre progs steps,
  ok_c16 r (s_log (fst (fst (crun_case false base r pre progs steps)))) = false.
Proof. exact c16_unchecked_refuted. Qed.
