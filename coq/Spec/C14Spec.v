(** C14: concurrent entries on one resource share one statistics node and are accounted without
    loss (inside one statistic bucket) or excess (always).  Executable predicate over what is
    observed once all threads have finished. *)
From SV Require Import Model.Base Model.LeapArray Model.World Model.Conc.
Open Scope N_scope.

Record c14obs := mkO {
  o_done : bool;                              (* every thread ran to its end *)
  o_builds : list (N * N * N * bool);         (* (thread, node token, batch, inbound) per built entry, in completion order *)
  o_exits : list (N * N * bool * N);          (* (thread, batch, inbound, round trip) per exit *)
  o_tok : N;                                  (* token of the node the map holds (0 = none) *)
  o_conc : N; o_pass : N; o_complete : N; o_rt : N;        (* the resource's node *)
  o_iconc : N; o_ipass : N; o_icomplete : N; o_irt : N     (* the inbound node *)
}.

(** what a thread's program builds and exits, in order *)
Fixpoint prog_builds (ops : list top) : list (N * bool) :=
  match ops with [] => [] | TB b i :: tl => (b, i) :: prog_builds tl | TX :: tl => prog_builds tl end.
Fixpoint prog_exits (ops : list top) (open : list (N * bool)) : list (N * bool) :=
  match ops with
  | [] => []
  | TB b i :: tl => prog_exits tl ((b, i) :: open)
  | TX :: tl => match open with [] => prog_exits tl [] | x :: open' => x :: prog_exits tl open' end
  end.

Definition pair_eqb (a b : N * bool) : bool := (fst a =? fst b) && Bool.eqb (snd a) (snd b).
Fixpoint plist_eqb (a b : list (N * bool)) : bool :=
  match a, b with [], [] => true | x :: a', y :: b' => pair_eqb x y && plist_eqb a' b' | _, _ => false end.

Definition builds_of (tid : N) (l : list (N * N * N * bool)) : list (N * bool) :=
  map (fun x => (snd (fst x), snd x)) (filter (fun x => fst (fst (fst x)) =? tid) l).
Definition exits_of (tid : N) (l : list (N * N * bool * N)) : list (N * bool) :=
  map (fun x => (snd (fst (fst x)), snd (fst x))) (filter (fun x => fst (fst (fst x)) =? tid) l).

Fixpoint threads_ok (progs : list (list top)) (tid : N) (o : c14obs) : bool :=
  match progs with
  | [] => true
  | p :: tl => plist_eqb (builds_of tid (o_builds o)) (prog_builds p) &&
               plist_eqb (exits_of tid (o_exits o)) (prog_exits p []) &&
               threads_ok tl (tid + 1) o
  end.

Definition sumN (l : list N) : N := fold_right N.add 0 l.
Definition b_batches (inb_only : bool) (l : list (N * N * N * bool)) : N :=
  sumN (map (fun x => if inb_only && negb (snd x) then 0 else snd (fst x)) l).
Definition x_batches (inb_only : bool) (l : list (N * N * bool * N)) : N :=
  sumN (map (fun x => if inb_only && negb (snd (fst x)) then 0 else snd (fst (fst x))) l).
Definition x_rts (inb_only : bool) (l : list (N * N * bool * N)) : N :=
  sumN (map (fun x => if inb_only && negb (snd (fst x)) then 0 else snd x) l).
Definition countb {A} (f : A -> bool) (l : list A) : N := N.of_nat (length (filter f l)).

Definition total_dt (steps : list (nat * N)) : N := sumN (map snd steps).

(** no bucket roll-over during the run: the bucket is the current one from the start (brand-new
    node, or traffic already recorded in it) and the clock stays inside it *)
Definition calm (base mode : N) (steps : list (nat * N)) : bool :=
  negb (mode =? 0) && (start G base =? start G (base + total_dt steps)).

Definition ok_c14 (base mode : N) (progs : list (list top)) (steps : list (nat * N)) (o : c14obs) : bool :=
  if base <? 100000 then true else
  let pre := if mode =? 1 then 0 else 1 in       (* the entry built and exited before the threads started *)
  o_done o &&
  threads_ok progs 0 o &&
  (* one shared node *)
  forallb (fun x => snd (fst (fst x)) =? o_tok o) (o_builds o) &&
  (* in flight = built and not exited *)
  (o_conc o + countb (fun _ => true) (o_exits o) =? countb (fun _ => true) (o_builds o)) &&
  (o_iconc o + countb (fun x => snd (fst x)) (o_exits o) =? countb (fun x => snd x) (o_builds o)) &&
  (* never more than was recorded *)
  (o_pass o <=? pre + b_batches false (o_builds o)) &&
  (o_complete o <=? pre + x_batches false (o_exits o)) &&
  (o_rt o <=? x_rts false (o_exits o)) &&
  (o_ipass o <=? pre + b_batches true (o_builds o)) &&
  (o_icomplete o <=? pre + x_batches true (o_exits o)) &&
  (o_irt o <=? x_rts true (o_exits o)) &&
  (* exactly what was recorded while no roll-over is involved *)
  (if calm base mode steps then
     let pre2 := if mode =? 2 then 1 else 0 in
     (o_pass o =? pre2 + b_batches false (o_builds o)) &&
     (o_complete o =? pre2 + x_batches false (o_exits o)) &&
     (o_rt o =? x_rts false (o_exits o)) &&
     (o_ipass o =? pre2 + b_batches true (o_builds o)) &&
     (o_icomplete o =? pre2 + x_batches true (o_exits o)) &&
     (o_irt o =? x_rts true (o_exits o))
   else true).

(** canonical node tokens: numbered by first appearance *)
Fixpoint tok_index (k : nat) (seen : list nat) : option N :=
  match seen with
  | [] => None
  | x :: tl => if Nat.eqb x k then Some 1 else option_map N.succ (tok_index k tl)
  end.
Fixpoint renumber (l : list nat) (seen : list nat) : list N * list nat :=
  match l with
  | [] => ([], seen)
  | k :: tl =>
      match tok_index k seen with
      | Some n => let '(r, s) := renumber tl seen in (n :: r, s)
      | None => let '(r, s) := renumber tl (seen ++ [k]) in (N.of_nat (length seen) + 1 :: r, s)
      end
  end.

(** the observation the model yields *)
Definition obs_of (st : cstate) (ths : list thr) : c14obs :=
  let '(toks, seen) := renumber (map (fun x => snd (fst (fst x))) (c_seen st)) [] in
  let ftok := match c_map st with
              | Some k => match tok_index k seen with Some n => n | None => N.of_nat (length seen) + 1 end
              | None => 0 end in
  let nd := match final_node st with Some nd => nd | None => mkNode [] 0 end in
  let has := match final_node st with Some _ => true | None => false end in
  let rd (n : node) (ev : mevent) := sum_or0 n (c_now st) ev in
  mkO (all_done ths)
      (map (fun xt => let '(x, t) := xt in (fst (fst (fst x)), t, snd (fst x), snd x)) (combine (c_seen st) toks))
      (c_exits st) ftok
      (n_conc nd) (if has then rd nd Pass else 0) (if has then rd nd Complete else 0) (if has then rd nd Rt else 0)
      (n_conc (c_inb st)) (rd (c_inb st) Pass) (rd (c_inb st) Complete) (rd (c_inb st) Rt).

Definition model_obs (racy : bool) (base mode : N) (progs : list (list top)) (steps : list (nat * N)) : c14obs * list (N * pt) :=
  let '(st, ths, tr) := run_case racy base mode progs steps in (obs_of st ths, tr).
