(** Ghost bookkeeping shared by the World-level specifications (C01, C04, C05): what the
    observable outcomes of a command history imply, without any ring or slot.

    For every resource the ghost keeps the list of statistic events implied by the outcomes
    (an admission implies "concurrency raised to k" and "pass n"; a rejection implies
    "block n"; the exit of an admitted entry implies "rt", "complete n"), the number of
    admitted-and-not-exited entries, and the open entries. *)
From SV Require Import Model.Base Model.LeapArray Model.World Spec.C02Spec.
Open Scope N_scope.

Record ghost := mkGh {
  g_now : N;
  g_hist : N -> list ev_t;      (* oldest first *)
  g_inb : list ev_t;
  g_fly : N -> N;
  g_inbfly : N;
  g_open : list (N * entry)
}.

Definition ghost0 (base : N) : ghost := mkGh base (fun _ => []) [] (fun _ => 0) 0 [].

Definition ev_pass (now fly batch : N) : list ev_t := [(now, WConc (fly + 1)); (now, WAdd Pass batch)].
Definition ev_block (now batch : N) : list ev_t := [(now, WAdd Block batch)].
Definition ev_done (now batch rt : N) : list ev_t := [(now, WAdd Rt rt); (now, WAdd Complete batch)].

Definition gh_admit (gh : ghost) (id res batch : N) (inb : bool) : ghost :=
  let now := g_now gh in
  mkGh now
       (set_fun (g_hist gh) res (g_hist gh res ++ ev_pass now (g_fly gh res) batch))
       (if inb then g_inb gh ++ ev_pass now (g_inbfly gh) batch else g_inb gh)
       (set_fun (g_fly gh) res (g_fly gh res + 1))
       (if inb then g_inbfly gh + 1 else g_inbfly gh)
       ((id, mkE res batch now inb) :: g_open gh).

Definition gh_block (gh : ghost) (res batch : N) (inb : bool) : ghost :=
  let now := g_now gh in
  mkGh now
       (set_fun (g_hist gh) res (g_hist gh res ++ ev_block now batch))
       (if inb then g_inb gh ++ ev_block now batch else g_inb gh)
       (g_fly gh) (g_inbfly gh) (g_open gh).

Definition gh_exit (gh : ghost) (e : entry) (rest : list (N * entry)) : ghost :=
  let now := g_now gh in
  let rt := now - e_start e in
  mkGh now
       (set_fun (g_hist gh) (e_res e) (g_hist gh (e_res e) ++ ev_done now (e_batch e) rt))
       (if e_inbound e then g_inb gh ++ ev_done now (e_batch e) rt else g_inb gh)
       (set_fun (g_fly gh) (e_res e) (g_fly gh (e_res e) - 1))
       (if e_inbound e then g_inbfly gh - 1 else g_inbfly gh)
       rest.

Definition gh_tick (gh : ghost) (dt : N) : ghost :=
  mkGh (g_now gh + dt) (g_hist gh) (g_inb gh) (g_fly gh) (g_inbfly gh) (g_open gh).

(** The ghost after a command with a given outcome; [None] when the outcome is not one the
    command can have (e.g. a panic, or "no such entry" for an open entry). *)
Definition gh_step (gh : ghost) (x : cmd) (o : wout) : option ghost :=
  match x, o with
  | WB id res batch inb _, ZAdmit => Some (gh_admit gh id res batch inb)
  | WB id res batch inb _, ZBlock _ _ _ => Some (gh_block gh res batch inb)
  | WX id, ZExited => match find_entry id (g_open gh) with
                      | Some (e, rest) => Some (gh_exit gh e rest)
                      | None => None
                      end
  | WX id, ZNoEntry => match find_entry id (g_open gh) with Some _ => None | None => Some gh end
  | WA dt, ZTick => Some (gh_tick gh dt)
  | WR _, ZRead _ _ _ _ _ => Some gh
  | WRI, ZRead _ _ _ _ _ => Some gh
  | _, _ => None
  end.

(** what a read of a node must return, from the ghost events of that node *)
Definition expect_read (c : cfg) (h : list ev_t) (fly now : N) : wout :=
  let w := mkW (c_msc c) (c_miv c) in
  let g := c_total c in
  ZRead fly (spec_sum g w now Pass h) (spec_sum g w now Block h)
        (spec_sum g w now Complete h) (spec_sum g w now Rt h).


(** A per-step predicate checked along a command history with its outcomes. *)
Fixpoint ok_trace (chk : ghost -> cmd -> wout -> bool) (gh : ghost) (ops : list cmd) (outs : list wout) : bool :=
  match ops, outs with
  | [], [] => true
  | x :: ops', o :: outs' =>
      match gh_step gh x o with
      | None => false
      | Some gh' => chk gh x o && ok_trace chk gh' ops' outs'
      end
  | _, _ => false
  end.
