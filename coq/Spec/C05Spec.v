(** C05 (isolation part): the concurrency cap of isolation rules. *)
From SV Require Import Model.Base Model.LeapArray Model.World Spec.WorldSpec.
Open Scope N_scope.

(** [rules res] = the isolation rules (token, threshold) loaded for the resource.
    A build with batch n while k entries of the resource are in flight is admitted exactly
    when k + n <= T for every rule; a rejection is an Isolation block (type 2) that names a
    rule whose bound is exceeded and carries k. *)
Definition chk_c05 (rules : N -> list (N * N)) (gh : ghost) (x : cmd) (o : wout) : bool :=
  match x with
  | WB _ res n _ _ =>
      let k := g_fly gh res in
      let fits := forallb (fun rt : N * N => k + n <=? snd rt) (rules res) in
      match o with
      | ZAdmit => fits
      | ZBlock bt r sn =>
          negb fits && (bt =? 2) && (sn =? k) &&
          existsb (fun rt : N * N => (fst rt =? r) && (snd rt <? k + n)) (rules res)
      | _ => false
      end
  | _ => true
  end.

Definition ok_c05_iso (rules : N -> list (N * N)) (base : N) (ops : list cmd) (outs : list wout) : bool :=
  ok_trace (chk_c05 rules) (ghost0 base) ops outs.

(** in-flight entries per resource after a history (from the outcomes) *)
Fixpoint ghost_after (gh : ghost) (ops : list cmd) (outs : list wout) : option ghost :=
  match ops, outs with
  | [], [] => Some gh
  | x :: ops', o :: outs' => match gh_step gh x o with Some gh' => ghost_after gh' ops' outs' | None => None end
  | _, _ => None
  end.
