(** C19: written metric items can be searched back; a torn tail loses one line.
    Executable predicates over directory dumps and search results (numbers relative to the
    writer's creation time: second 0 is the creation second). *)
From SV Require Import Model.Base.
Open Scope Z_scope.

(** a parsed line: (id, second, resource) ; None = unparsable *)
Definition dline := option (Z * Z * Z).
Record dfile := mkDF { d_day : Z; d_no : Z; d_len : Z; d_idx : list (Z * Z); d_idx_rest : Z; d_lines : list dline }.
Definition ditem := (Z * Z * Z)%type.

Definition it_id (x : ditem) : Z := fst (fst x).
Definition it_sec (x : ditem) : Z := snd (fst x).
Definition it_res (x : ditem) : Z := snd x.
Definition ditem_eqb (a b : ditem) : bool := (it_id a =? it_id b) && (it_sec a =? it_sec b) && (it_res a =? it_res b).

(** the items of a file whose second has a complete index entry in that file *)
Definition has_idx (f : dfile) (sec : Z) : bool := existsb (fun p => fst p =? sec) (d_idx f).
Definition file_items (only_indexed : bool) (f : dfile) : list ditem :=
  flat_map (fun l => match l with
                     | Some x => if negb only_indexed || has_idx f (it_sec x) then [x] else []
                     | None => [] end) (d_lines f).
Fixpoint items_from (only_indexed : bool) (prev : Z) (fs : list dfile) : list ditem :=
  match fs with
  | [] => []
  | f :: tl =>
      flat_map (fun l => match l with
                         | Some x => if negb only_indexed || has_idx f (it_sec x) || (it_sec x =? prev) then [x] else []
                         | None => [] end) (d_lines f)
      ++ items_from only_indexed (fold_left (fun acc l => match l with Some x => it_sec x | None => acc end) (d_lines f) prev) tl
  end.
Definition all_items (only_indexed : bool) (fs : list dfile) : list ditem := items_from only_indexed (-1) fs.

Fixpoint subseq (a b : list ditem) : bool :=     (* a is a subsequence of b *)
  match a, b with
  | [], _ => true
  | _ :: _, [] => false
  | x :: a', y :: b' => if ditem_eqb x y then subseq a' b' else subseq a b'
  end.
Fixpoint list_eqb (a b : list ditem) : bool :=
  match a, b with [], [] => true | x :: a', y :: b' => ditem_eqb x y && list_eqb a' b' | _, _ => false end.

(** whole seconds until at least [mx] items *)
Fixpoint take_seconds (mx : Z) (l : list ditem) (n : Z) (last : Z) : list ditem :=
  match l with
  | [] => []
  | x :: tl => if (mx <=? n) && negb (it_sec x =? last) then [] else x :: take_seconds mx tl (n + 1) (it_sec x)
  end.

(** search by time range and resource (resource 9 = any); [crash]: the directory was cut *)
Definition ok_by_time (crash : bool) (fs : list dfile) (bsec esec res : Z) (result : list ditem) : bool :=
  let inrange := fun x => (1 <=? it_sec x) && (bsec <=? it_sec x) && (it_sec x <=? esec) && ((res =? 9) || (it_res x =? res)) in
  let expected := filter inrange (all_items true fs) in
  let found := filter (fun x => 1 <=? it_sec x) result in
  if crash then
    subseq expected found && subseq found (filter inrange (all_items false fs))
  else list_eqb found expected.

(** search from a time with a line limit (asserted for begin seconds after the creation second):
    the result is a prefix, in write order, of the items from that time on, and it is not cut
    short: it has at least [mx] items unless there are fewer *)
Fixpoint is_prefix (a b : list ditem) : bool :=
  match a, b with
  | [], _ => true
  | x :: a', y :: b' => ditem_eqb x y && is_prefix a' b'
  | _ :: _, [] => false
  end.
Definition ok_max_lines (crash : bool) (fs : list dfile) (bsec mx : Z) (result : list ditem) : bool :=
  if bsec <? 1 then true else
  let cand := filter (fun x => bsec <=? it_sec x) (all_items true fs) in
  let need := Z.min mx (Z.of_nat (length cand)) in
  if crash then
    subseq (firstn (Z.to_nat need) cand) result && subseq result (filter (fun x => bsec <=? it_sec x) (all_items false fs))
  else is_prefix result cand && (need <=? Z.of_nat (length result)).

(** the writer's side, without a crash: every line parses, the index is whole, and every second
    after the creation second has its index entry in the file that holds its first line (a
    second may continue into the next file after a roll-over by size: [prev] = the last second of
    the previous file) *)
Definition last_sec_of (f : dfile) (prev : Z) : Z :=
  fold_left (fun acc l => match l with Some x => it_sec x | None => acc end) (d_lines f) prev.
Fixpoint ok_dump_from (prev : Z) (fs : list dfile) : bool :=
  match fs with
  | [] => true
  | f :: tl =>
      (d_idx_rest f =? 0) &&
      forallb (fun l => match l with
                        | Some x => (it_sec x <? 1) || has_idx f (it_sec x) || (it_sec x =? prev)
                        | None => false end) (d_lines f) &&
      ok_dump_from (last_sec_of f prev) tl
  end.
(** the first retained file may begin with the rest of a second whose beginning was in a file that
    retention has removed *)
Definition first_sec (fs : list dfile) : Z :=
  match fs with
  | f :: _ => match d_lines f with Some x :: _ => it_sec x | _ => -1 end
  | [] => -1
  end.
Definition ok_dump (fs : list dfile) : bool := ok_dump_from (first_sec fs) fs.

(** between two dumps no retained file shrinks (a file is only ever appended to or removed) and the
    number of files stays within the retention limit *)
Definition ok_retention (max_files : Z) (prev cur : list dfile) : bool :=
  (Z.of_nat (length cur) <=? Z.max max_files 1) &&
  forallb (fun f => match find (fun g => (d_day g =? d_day f) && (d_no g =? d_no f)) prev with
                    | Some g => d_len g <=? d_len f
                    | None => true end) cur.
