(** C01 specification: reject-type flow control admits a request iff it fits every rule's
    window.  Everything is computed from the outcomes of earlier commands (the ghost), with
    no ring buffer. *)
From SV Require Import Model.Base Model.LeapArray Model.World Spec.C02Spec Spec.WorldSpec.
Open Scope N_scope.

(** the admissions among the implied events *)
Definition is_pass_ev (e : ev_t) : bool := match snd e with WAdd Pass _ => true | _ => false end.
Definition passes (h : list ev_t) : list ev_t := filter is_pass_ev h.


(** Tokens already admitted inside the rule's current statistic window: the window geometry
    is the one the rule's interval selects (default metric / window over the 10 s ring /
    private ring); the count is the direct sum over the admissions whose bucket lies in it. *)
Definition spec_ctl_sum (c : cfg) (f : fctl) (now : N) (h : list ev_t) : N :=
  match f_stat f with
  | SDefault => spec_sum (c_total c) (mkW (c_msc c) (c_miv c)) now Pass h
  | SReuse w => spec_sum (c_total c) w now Pass h
  | SPrivate g w _ => spec_sum g w now Pass (passes h)
  | SBroken => 0
  end.


(** the flow slot's verdict, from the ghost events *)
Fixpoint spec_flow_slot (c : cfg) (fs : list fctl) (now batch : N) (h : list ev_t) : slot_out :=
  match fs with
  | [] => SPass
  | f :: tl => let cur := spec_ctl_sum c f now h in
               if gt_thr (cur + batch) (f_thr f) then SBlock 1 (f_rule f) cur
               else spec_flow_slot c tl now batch h
  end.


Definition fits (c : cfg) (now n : N) (h : list ev_t) (f : fctl) : bool :=
  negb (gt_thr (spec_ctl_sum c f now h + n) (f_thr f)).

(** [rules res] = the flow controllers of the resource (rule token, threshold, statistic kind).
    A build with n tokens is admitted exactly when it fits every rule; a rejection is a Flow
    block (type 1) naming a rule it does not fit and carrying that rule's window count. *)
Definition chk_c01 (c : cfg) (rules : N -> list fctl) (gh : ghost) (x : cmd) (o : wout) : bool :=
  match x with
  | WB _ res n _ _ =>
      let h := g_hist gh res in
      let now := g_now gh in
      let all_fit := forallb (fits c now n h) (rules res) in
      match o with
      | ZAdmit => all_fit
      | ZBlock bt r sn =>
          negb all_fit && (bt =? 1) &&
          existsb (fun f => (f_rule f =? r) && negb (fits c now n h f) && (sn =? spec_ctl_sum c f now h)) (rules res)
      | _ => false
      end
  | _ => true
  end.

Definition ok_c01 (c : cfg) (rules : N -> list fctl) (base : N) (ops : list cmd) (outs : list wout) : bool :=
  ok_trace (chk_c01 c rules) (ghost0 base) ops outs.
