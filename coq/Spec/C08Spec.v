(** C08: warm-up ramps from threshold/coldFactor up to threshold, and cools when idle.
    Executable predicates over a typed trace of a resource guarded by one warm-up reject rule. *)
From SV Require Import Model.Base Model.F64 Model.LeapArray Model.World Model.WarmUp.
Open Scope N_scope.

(** effective cold factor *)
Definition eff_cold (cold : N) : N := if cold <=? 1 then 3 else cold.

(** "about": relative slack 2^-30 on float quantities that the code computes through a handful of
    roundings, plus one token *)
Definition slack : f64 := f64_of_bits 4472074429978902528.   (* 2^-30 *)
Definition one_plus : f64 := fadd (f64_of_Z 1) slack.
Definition one_minus : f64 := fsub (f64_of_Z 1) slack.

(** q/c from below and q from above, with the slack *)
Definition lo_of (q : f64) (c : N) : f64 := fmul (fdiv q (f64_of_N c)) one_minus.
Definition hi_of (q : f64) : f64 := fmul q one_plus.

(** events of a trace with the time at which they happened *)
Inductive tev := TAdmit (t batch : N) | TBlock (t batch cur : N) | TThr (t : N) (a : f64).

Fixpoint timeline (now : N) (cmds : list wcmd) (obs : list wobs) (curs : list N) : option (list tev) :=
  match cmds, obs with
  | [], [] => Some []
  | WA dt :: cs, WOTick :: os => timeline (now + dt) cs os curs
  | WB b :: cs, WOAdmit :: os => option_map (cons (TAdmit now b)) (timeline now cs os curs)
  | WB b :: cs, WOBlock :: os =>
      match curs with
      | cur :: curs' => option_map (cons (TBlock now b cur)) (timeline now cs os curs')
      | [] => None
      end
  | WT :: cs, WOThr bits :: os => option_map (cons (TThr now (f64_of_bits bits))) (timeline now cs os curs)
  | _, _ => None
  end.

(** admitted tokens in the statistic window (two 500 ms buckets of the default 1 s metric) that
    is current at time [t], counting the events of [past] (most recent first) *)
Definition win_lo (t : N) : N := (t - t mod 500) - 500.
Fixpoint admitted_in (lo : N) (past : list tev) : N :=
  match past with
  | [] => 0
  | TAdmit t b :: tl => (if lo <=? t then b else 0) + admitted_in lo tl
  | _ :: tl => admitted_in lo tl
  end.

(** S1/S2: never more than q per statistic window; a rejection only when the window already
    holds about q/c; every allowed threshold read lies between about q/c and about q *)
Fixpoint ok_bounds (q : f64) (c : N) (past : list tev) (evs : list tev) : bool :=
  match evs with
  | [] => true
  | e :: tl =>
      (match e with
       | TAdmit t b => fle (f64_of_N (admitted_in (win_lo t) past + b)) (hi_of q)
       | TBlock t b cur => fle (lo_of q c) (f64_of_N (cur + b)) && (cur =? admitted_in (win_lo t) past)
       | TThr _ a => fle (lo_of q c) a && fle a (hi_of q)
       end) && ok_bounds q c (e :: past) tl
  end.

(** S3: a reading taken before anything was admitted (cold start) is about q/c *)
Fixpoint ok_cold_start (q : f64) (c : N) (evs : list tev) : bool :=
  match evs with
  | [] => true
  | TThr _ a :: tl => fle (lo_of q c) a && fle a (fmul (fdiv q (f64_of_N c)) one_plus) && ok_cold_start q c tl
  | TAdmit _ _ :: _ => true
  | TBlock _ _ _ :: tl => ok_cold_start q c tl
  end.

(** S5: a reading after an idle period of at least 2p s (and at least 2 s, so that the previous
    window is empty) is about q/c again; [last] = time of the last admission *)
Fixpoint ok_idle (q : f64) (c p : N) (last : option N) (evs : list tev) : bool :=
  match evs with
  | [] => true
  | TAdmit t _ :: tl => ok_idle q c p (Some t) tl
  | TBlock _ _ _ :: tl => ok_idle q c p last tl
  | TThr t a :: tl =>
      (match last with
       | Some t0 => if (t0 + N.max (2 * p) 2 * 1000 + 1000 <=? t)
                    then fle a (fmul (fdiv q (f64_of_N c)) one_plus) else true
       | None => true
       end) && ok_idle q c p last tl
  end.

(** S4, for traces whose demand is saturating from [t0] on (the generator marks them): the
    readings never decrease, and from t0 + (2p+2) s on they are q *)
Fixpoint ok_ramp (q : f64) (p t0 : N) (prev : option f64) (evs : list tev) : bool :=
  match evs with
  | [] => true
  | TThr t a :: tl =>
      (match prev with Some a0 => fle (fmul a0 one_minus) a | None => true end) &&
      (if t0 + (2 * p + 2) * 1000 <=? t then fle (fmul q one_minus) a else true) &&
      ok_ramp q p t0 (Some a) tl
  | _ :: tl => ok_ramp q p t0 prev tl
  end.

Definition ok_c08 (q : f64) (cold p base : N) (saturating : bool) (evs : list tev) : bool :=
  let c := eff_cold cold in
  ok_bounds q c [] evs && ok_cold_start q c evs && ok_idle q c p None evs &&
  (if saturating then ok_ramp q p base None evs else true).
