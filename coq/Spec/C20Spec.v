(** C20 specification: the middleware calls the service iff admitted and always releases. *)
From SV Require Import Model.Base Model.Tower.
Open Scope N_scope.

Definition resp_eqb (a b : tresp) : bool :=
  match a, b with
  | TROkInner, TROkInner | TROkFallback, TROkFallback | TRErr, TRErr | TRDropped, TRDropped => true
  | _, _ => false
  end.

(** [k] = admissions still held by futures that were dropped before completion (reported, not
    asserted to be released).  Each request: admitted iff Sentinel admits (k + 1 <= thr, the only
    entries in flight between calls are the leaked ones); the inner service is called exactly
    once iff admitted; a rejected request gets the fallback response (or an error) and the inner
    service is not called; after a completed call — response or error — the in-flight count is
    back to its previous value. *)
Fixpoint ok_c20 (thr : N) (fb : N) (k : N) (l : list treq) (obs : list tobs1) : bool :=
  match l, obs with
  | [], [] => true
  | q :: tl, o :: obs' =>
      if k + 1 <=? thr then
        (o_calls o =? 1) &&
        (if q_drop q && is_pending (q_kind q)
         then resp_eqb (o_resp o) TRDropped && (o_inflight o =? k + 1) && ok_c20 thr fb (k + 1) tl obs'
         else resp_eqb (o_resp o) (if is_ok (q_kind q) then TROkInner else TRErr) && (o_inflight o =? k)
              && ok_c20 thr fb k tl obs')
      else
        (o_calls o =? 0) && (o_polls o =? 0) && resp_eqb (o_resp o) (if fb =? 1 then TROkFallback else TRErr)
        && (o_inflight o =? k) && ok_c20 thr fb k tl obs'
  | _, _ => false
  end.

(** admissions that are still held at the end: the requests whose future was dropped before completion *)
Definition dropped (obs : list tobs1) : N :=
  N.of_nat (length (filter (fun o => resp_eqb (o_resp o) TRDropped) obs)).
Fixpoint last_inflight (k : N) (obs : list tobs1) : N :=
  match obs with [] => k | o :: tl => last_inflight (o_inflight o) tl end.
