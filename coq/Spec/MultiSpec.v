(** Multi-rule versions of the C05 (hotspot concurrency) and C07 (throttling) predicates:
    several rules of the same kind on one resource, checked in order; the first rule that
    refuses blocks the entry, earlier rules have already taken effect. *)
From SV Require Import Model.Base Model.F64 Model.Throttle Model.Hotspot Spec.C05hSpec Spec.C07Spec.
Open Scope N_scope.

(** ** C05: hotspot concurrency rules [rs] (all with thresholds >= 1) *)

(** the first rule (in order) whose per-value bound would be exceeded, with k + 1 *)
Fixpoint first_full (rs : list hrule) (args : option (list N)) (att : option (list (N * N)))
         (open : list (N * hentry)) : option (N * N) :=
  match rs with
  | [] => None
  | r :: tl =>
      match extract r args att with
      | None => first_full tl args att open
      | Some v => let k := count_open r v open in
                  if k + 1 <=? thr_of r v then first_full tl args att open else Some (h_id r, k + 1)
      end
  end.

Fixpoint ok_c05h_multi (rs : list hrule) (open : list (N * hentry)) (ops : list hcmd) (obs : list hobs) : bool :=
  match ops, obs with
  | [], [] => true
  | HB id args att n :: ops', o :: obs' =>
      match first_full rs args att open, o with
      | None, HOAdmit _ => ok_c05h_multi rs ((id, mkHE args att) :: open) ops' obs'
      | Some (rl, sn), HOBlock rl' sn' _ => (rl' =? rl) && (sn' =? sn) && ok_c05h_multi rs open ops' obs'
      | _, _ => false
      end
  | HX id :: ops', o :: obs' =>
      match find_hentry id open, o with
      | Some (_, rest), HOExited => ok_c05h_multi rs rest ops' obs'
      | None, HONoEntry => ok_c05h_multi rs open ops' obs'
      | _, _ => false
      end
  | HA _ :: ops', HOTick :: obs' => ok_c05h_multi rs open ops' obs'
  | _, _ => false
  end.

Open Scope Z_scope.

(** ** C07: flow throttling rules, each with its own pacer state, checked in order on the
    advancing clock.  Result of one build: (new states, Some final clock | None with
    (rule named, clock at the rejection)). *)
Fixpoint pace_all (cs : list (trule * Z)) (t : Z) (n : N)
  : list (trule * Z) * (Z + (N * Z)) :=
  match cs with
  | [] => ([], inl t)
  | (r, s) :: tl =>
      if (n =? 0)%N then let '(tl', res) := pace_all tl t n in ((r, s) :: tl', res)
      else if fle (t_thr r) (f64_of_Z 0) then ((r, s) :: tl, inr (t_id r, t))
      else if flt (t_thr r) (f64_of_N n) then ((r, s) :: tl, inr (0%N, t))
      else
        let '(s', d) := pace false s t (interval_ns r n) (maxq_ns r) in
        match d with
        | Some sch => let '(tl', res) := pace_all tl sch n in ((r, s') :: tl', res)
        | None => ((r, s') :: tl, inr (t_id r, t))
        end
  end.

Fixpoint ok_c07_flow_multi (cs : list (trule * Z)) (now : Z) (ops : list tcmd) (obs : list tobs) : bool :=
  match ops, obs with
  | [], [] => true
  | TA dt :: ops', TOTick :: obs' => ok_c07_flow_multi cs (now + dt) ops' obs'
  | TB n :: ops', o :: obs' =>
      let '(cs', res) := pace_all cs now n in
      match res, o with
      | inl fin, TOAdmit a => (a =? fin) && ok_c07_flow_multi cs' a ops' obs'
      | inr (rl, t), TOBlock rl' a => (a =? t) && (rl' =? rl)%N && ok_c07_flow_multi cs' a ops' obs'
      | _, _ => false
      end
  | _, _ => false
  end.
