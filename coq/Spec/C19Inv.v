(** C19: what the writer guarantees about every file it leaves behind. *)
From SV Require Import Model.Base Model.MetricLine Model.MetricLog.
Open Scope N_scope.

(** a log as written: one line per item, each closed by a line feed *)
Definition log_of (items : list mitem) : bytes := flat_map (fun i => to_line i ++ [10]) items.
Definition idx_of (ents : list (N * N)) : bytes := flat_map (fun e => be64 (fst e) ++ be64 (snd e)) ents.
Definition sec_of (i : mitem) : N := mi_ts i / 1000.

(** an index entry (second, offset) points at the first line of that second: everything before
    the offset is older, and the line at the offset belongs to the second *)
Definition entry_ok (items : list mitem) (e : N * N) : Prop :=
  exists pre post,
    items = pre ++ post /\ snd e = N.of_nat (length (log_of pre)) /\
    Forall (fun i => sec_of i < fst e) pre /\
    match post with i :: _ => sec_of i = fst e | [] => False end.

(** a file is the image of a list of items and a list of index entries, every entry is right,
    and the entries come in increasing order of seconds *)
Fixpoint increasing (l : list N) : Prop :=
  match l with
  | a :: ((b :: _) as tl) => a < b /\ increasing tl
  | _ => True
  end.

Definition file_ok (f : mfile) : Prop :=
  exists items ents,
    f_log f = log_of items /\ f_idx f = idx_of ents /\
    Forall (entry_ok items) ents /\ increasing (map fst ents).

(** the state after a history of writes *)
Definition after_writes (w : mlw) (ws : list (N * list mitem)) : mlw :=
  fold_left (fun w x => fst (mwrite w (fst x) (snd x))) ws w.

(** resource names without a line feed (the codec replaces only the field separator) *)
Definition name_ok (i : mitem) : Prop := ~ In 10 (mi_res i).
