(** C09 specification: system protection rejects inbound traffic exactly when a system metric
    trips.  The metric values are computed directly from the history of outcomes (the implied
    inbound events), with no ring. *)
From SV Require Import Model.Base Model.F64 Model.LeapArray Model.World Model.System Spec.C02Spec Spec.WorldSpec.
Open Scope N_scope.

(** sum of the counts of kind [ev] recorded in the bucket that starts at [s] *)
Definition bucket_sum (g : geom) (ev : mevent) (h : list ev_t) (s : N) : N :=
  fold_right (fun (e : ev_t) acc =>
    if start g (fst e) =? s then
      match snd e with WAdd ev' n => if mevent_eqb ev' ev then n + acc else acc | WConc _ => acc end
    else acc) 0 h.

(** the largest single-bucket sum among the buckets of the window *)
Definition spec_max_single (g : geom) (w : win) (now : N) (ev : mevent) (h : list ev_t) : N :=
  fold_right (fun (e : ev_t) acc =>
    if in_window g w now (fst e) then N.max (bucket_sum g ev h (start g (fst e))) acc else acc) 0 h.

(** the readings a system rule looks at, from the implied inbound events [h] (oldest first),
    the number of inbound entries in flight and the injected load / cpu values *)
Record sreadings := mkRd { rd_qps : f64; rd_conc : f64; rd_avg_rt : f64; rd_load : f64; rd_cpu : f64; rd_bbr_ok : bool }.

Definition readings (c : cfg) (h : list ev_t) (fly now : N) (load cpu : f64) : sreadings :=
  let g := c_total c in let w := mkW (c_msc c) (c_miv c) in
  let conc := f64_of_N fly in
  let min_rt := f64_of_N (spec_min_rt g w now h) in
  let max_complete :=
    fmul (fdiv (fmul (f64_of_N (spec_max_single g w now Complete h)) (f64_of_N (c_msc c))) (f64_of_N (c_miv c))) f64_thousand in
  mkRd (qps_of_sum w (spec_sum g w now Pass h)) conc
       (avg_of (spec_sum g w now Rt h) (spec_sum g w now Complete h)) load cpu
       (* capacity estimate of the BBR strategy: best completed-per-second rate times minimum RT *)
       (negb (fgt conc (f64_of_Z 1) && fgt conc (fdiv (fmul max_complete min_rt) f64_thousand))).

(** the decision table: (trips?, value reported) *)
Definition trips (r : srule) (m : sreadings) : bool * f64 :=
  match s_metric r with
  | MQps => (negb (flt (rd_qps m) (s_thr r)), rd_qps m)          (* at or above the threshold *)
  | MConc => (negb (flt (rd_conc m) (s_thr r)), rd_conc m)
  | MAvgRT => (negb (flt (rd_avg_rt m) (s_thr r)), rd_avg_rt m)
  | MLoad => (fgt (rd_load m) (s_thr r) && (negb (s_bbr r) || negb (rd_bbr_ok m)), rd_load m)   (* strictly above *)
  | MCpu => (fgt (rd_cpu m) (s_thr r) && (negb (s_bbr r) || negb (rd_bbr_ok m)), rd_cpu m)
  end.

Fixpoint first_trip (rs : list srule) (m : sreadings) : option (N * f64) :=
  match rs with
  | [] => None
  | r :: tl => let '(t, v) := trips r m in if t then Some (s_id r, v) else first_trip tl m
  end.

Definition f64_eqb (a b : f64) : bool := (fbits a =? fbits b)%Z.

Record sghost := mkSG { sg_now : N; sg_hist : list ev_t; sg_fly : N; sg_load : f64; sg_cpu : f64;
                        sg_open : list (N * (N * N * bool)) }.

(** an inbound entry is rejected exactly when some rule trips, with a System block carrying the
    first tripping rule (in the slot's order) and the observed value; outbound entries are never
    affected and leave the inbound totals alone *)
Fixpoint ok_c09 (c : cfg) (rs : list srule) (gh : sghost) (ops : list scmd) (obs : list sobs) : bool :=
  match ops, obs with
  | [], [] => true
  | SA dt :: ops', SOTick :: obs' =>
      ok_c09 c rs (mkSG (sg_now gh + dt) (sg_hist gh) (sg_fly gh) (sg_load gh) (sg_cpu gh) (sg_open gh)) ops' obs'
  | SLoad v :: ops', SOTick :: obs' =>
      ok_c09 c rs (mkSG (sg_now gh) (sg_hist gh) (sg_fly gh) v (sg_cpu gh) (sg_open gh)) ops' obs'
  | SCpu v :: ops', SOTick :: obs' =>
      ok_c09 c rs (mkSG (sg_now gh) (sg_hist gh) (sg_fly gh) (sg_load gh) v (sg_open gh)) ops' obs'
  | SB id batch inbound :: ops', o :: obs' =>
      let now := sg_now gh in
      if inbound then
        match first_trip rs (readings c (sg_hist gh) (sg_fly gh) now (sg_load gh) (sg_cpu gh)), o with
        | Some (rl, v), SOBlock rl' v' =>
            (rl' =? rl) && f64_eqb v' v &&
            ok_c09 c rs (mkSG now (sg_hist gh ++ ev_block now batch) (sg_fly gh) (sg_load gh) (sg_cpu gh) (sg_open gh)) ops' obs'
        | None, SOAdmit =>
            ok_c09 c rs (mkSG now (sg_hist gh ++ ev_pass now (sg_fly gh) batch) (sg_fly gh + 1) (sg_load gh) (sg_cpu gh)
                              ((id, (batch, now, true)) :: sg_open gh)) ops' obs'
        | _, _ => false
        end
      else
        match o with
        | SOAdmit => ok_c09 c rs (mkSG now (sg_hist gh) (sg_fly gh) (sg_load gh) (sg_cpu gh)
                                       ((id, (batch, now, false)) :: sg_open gh)) ops' obs'
        | _ => false
        end
  | SX id :: ops', o :: obs' =>
      match find_sopen id (sg_open gh), o with
      | None, SONoEntry => ok_c09 c rs gh ops' obs'
      | Some ((batch, st, inbound), rest), SOExited =>
          let now := sg_now gh in
          if inbound
          then ok_c09 c rs (mkSG now (sg_hist gh ++ ev_done now batch (now - st)) (sg_fly gh - 1) (sg_load gh) (sg_cpu gh) rest) ops' obs'
          else ok_c09 c rs (mkSG now (sg_hist gh) (sg_fly gh) (sg_load gh) (sg_cpu gh) rest) ops' obs'
      | _, _ => false
      end
  | _, _ => false
  end.
