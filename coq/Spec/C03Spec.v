(** C03 specification: the documented Closed / Open / Half-Open state machine, driven by
    observable events only.  No ring buffer: the machine remembers the completions since its
    statistics were last cleared and counts those inside the statistic window directly. *)
From SV Require Import Model.Base Model.F64 Model.LeapArray Model.Breaker.
Open Scope N_scope.

(** a completion: (time, bad?) ; newest first *)
Record sm := mkSM { s_st : bstate; s_retry_at : N; s_comps : list (N * bool) }.
Definition sm0 : sm := mkSM Closed 0 [].

(** a completion at time t is inside the window read at [now] when its bucket has not yet
    been left behind by one whole interval: start(t) + interval > now *)
Definition in_win (r : brule) (now t : N) : bool :=
  let g := brule_geom r in now <? start g t + iv g.

Definition total_w (r : brule) (comps : list (N * bool)) (now : N) : N :=
  N.of_nat (length (filter (fun c : N * bool => in_win r now (fst c)) comps)).
Definition bad_w (r : brule) (comps : list (N * bool)) (now : N) : N :=
  N.of_nat (length (filter (fun c : N * bool => in_win r now (fst c) && snd c) comps)).

(** a request: Closed passes; Half-Open is refused; Open is refused until the retry time,
    then exactly this request becomes the probe *)
Definition sm_try_pass (r : brule) (s : sm) (now : N) : bool * sm * list transition * bool :=
  match s_st s with
  | Closed => (true, s, [], false)
  | HalfOpen => (false, s, [], false)
  | Open => if s_retry_at s <=? now
            then (true, mkSM HalfOpen (s_retry_at s) (s_comps s), [(br_id r, Open, HalfOpen)], true)
            else (false, s, [], false)
  end.

(** a completion: in Half-Open the outcome of this very request decides (bad => re-open with a
    new retry time; good => close and clear the statistics); in Closed the breaker opens iff
    the minimum request amount is reached and the threshold is met within the window *)
Definition sm_complete (r : brule) (s : sm) (now rt : N) (err : bool) : sm * list transition :=
  let bad := is_bad r rt err in
  let comps := (now, bad) :: s_comps s in
  match s_st s with
  | HalfOpen =>
      if bad then (mkSM Open (now + br_retry_ms r) comps, [(br_id r, HalfOpen, Open)])
      else (mkSM Closed (s_retry_at s) [], [(br_id r, HalfOpen, Closed)])
  | Closed =>
      if (br_min_req r <=? total_w r comps now) && threshold_met r (bad_w r comps now) (total_w r comps now)
      then (mkSM Open (now + br_retry_ms r) comps, [(br_id r, Closed, Open)])
      else (mkSM Closed (s_retry_at s) comps, [])
  | Open => (mkSM Open (s_retry_at s) comps, [])
  end.

(** a probe that is itself rejected returns the breaker to Open (retry time unchanged) *)
Definition sm_probe_blocked (r : brule) (s : sm) : sm * list transition :=
  match s_st s with
  | HalfOpen => (mkSM Open (s_retry_at s) (s_comps s), [(br_id r, HalfOpen, Open)])
  | _ => (s, [])
  end.

(** ** several breakers on one resource *)
Fixpoint sm_slot (l : list (brule * sm)) (now : N) : list (brule * sm) * bool * list transition * list N :=
  match l with
  | [] => ([], false, [], [])
  | (r, s) :: tl =>
      let '(ok, s', tr, probe) := sm_try_pass r s now in
      if ok then
        let '(tl', blocked, tr', probes) := sm_slot tl now in
        ((r, s') :: tl', blocked, tr ++ tr', if probe then br_id r :: probes else probes)
      else ((r, s') :: tl, true, tr, [])
  end.

Fixpoint sm_rollback (l : list (brule * sm)) (probes : list N) : list (brule * sm) * list transition :=
  match l with
  | [] => ([], [])
  | (r, s) :: tl =>
      let '(tl', tr) := sm_rollback tl probes in
      if mem_N (br_id r) probes
      then let '(s', t) := sm_probe_blocked r s in ((r, s') :: tl', t ++ tr)
      else ((r, s) :: tl', tr)
  end.

Fixpoint sm_complete_all (l : list (brule * sm)) (now rt : N) (err : bool) : list (brule * sm) * list transition :=
  match l with
  | [] => ([], [])
  | (r, s) :: tl => let '(s', tr) := sm_complete r s now rt err in
                    let '(tl', tr') := sm_complete_all tl now rt err in ((r, s') :: tl', tr ++ tr')
  end.

Fixpoint tr_eqb (a b : list transition) : bool :=
  match a, b with
  | [], [] => true
  | (r1, x1, y1) :: a', (r2, x2, y2) :: b' => (r1 =? r2) && bstate_eqb x1 x2 && bstate_eqb y1 y2 && tr_eqb a' b'
  | _, _ => false
  end.

Fixpoint states_eqb (l : list (brule * sm)) (obs : list (bstate * N)) : bool :=
  match l, obs with
  | [], [] => true
  | (_, s) :: l', (st, ra) :: obs' => bstate_eqb (s_st s) st && (s_retry_at s =? ra) && states_eqb l' obs'
  | _, _ => false
  end.

(** The observable trace (admissions, block type, announced transitions in order, state and
    retry time of every breaker after every command) is exactly what the state machines give. *)
Fixpoint ok_c03 (l : list (brule * sm)) (now : N) (open : list (N * N)) (ops : list bcmd)
         (obs : list (bobs * list (bstate * N))) : bool :=
  match ops, obs with
  | [], [] => true
  | BA dt :: ops', (BOTick, sts) :: obs' => states_eqb l sts && ok_c03 l (now + dt) open ops' obs'
  | BB id other :: ops', (o, sts) :: obs' =>
      let '(l1, blocked, tr, probes) := sm_slot l now in
      if blocked || other then
        let '(l2, tr') := sm_rollback l1 probes in
        match o with
        | BOBlock bt tro => (bt =? (if other then 100 else 3)) && tr_eqb tro (tr ++ tr') && states_eqb l2 sts
                            && ok_c03 l2 now open ops' obs'
        | _ => false
        end
      else
        match o with
        | BOAdmit tro => tr_eqb tro tr && states_eqb l1 sts && ok_c03 l1 now ((id, now) :: open) ops' obs'
        | _ => false
        end
  | BX id err :: ops', (o, sts) :: obs' =>
      match find_open id open, o with
      | None, BONoEntry => states_eqb l sts && ok_c03 l now open ops' obs'
      | Some (start, rest), BOExited tro =>
          let '(l1, tr) := sm_complete_all l now (now - start) err in
          tr_eqb tro tr && states_eqb l1 sts && ok_c03 l1 now rest ops' obs'
      | _, _ => false
      end
  | _, _ => false
  end.
