(** C11 (identity part): a reload in which a resource's rules are equal to the loaded ones keeps
    the objects that carry that resource's accumulated state. *)
From SV Require Import Model.Base Model.Manager Spec.C10Spec.
Open Scope N_scope.

(** commands: a manager operation, or "look at the identities of the resource's controllers" *)
Inductive c11cmd := CM (o : mop) | CT (res : N).

(** an identity observation: (rule class, object token, statistic token) per controller *)
Definition idobs := list (N * N * N).

Definition class_of (r : rule) : N := r_res r * 1000000 + r_key r.

Fixpoint mem3 (x : N * N * N) (l : idobs) : bool :=
  match l with
  | [] => false
  | (a, b, c) :: tl => let '(a', b', c') := x in ((a =? a') && (b =? b') && (c =? c')) || mem3 x tl
  end.
Definition same_ids (a b : idobs) : bool :=
  (length a =? length b)%nat && forallb (fun x => mem3 x b) a && forallb (fun x => mem3 x a) b.

Fixpoint nodup_classes (l : list N) : bool :=
  match l with [] => true | x :: tl => negb (existsb (N.eqb x) tl) && nodup_classes tl end.

Fixpoint insert_sorted (x : N) (l : list N) : list N :=
  match l with [] => [x] | y :: tl => if x <=? y then x :: y :: tl else y :: insert_sorted x tl end.
Definition sorted_classes (l : list rule) : list N := fold_right insert_sorted [] (map class_of l).
Fixpoint nlist_eqb (a b : list N) : bool :=
  match a, b with [], [] => true | x :: a', y :: b' => (x =? y) && nlist_eqb a' b' | _, _ => false end.

(** [last] = for the resources observed so far, the rule classes the reference map prescribed
    at the previous observation together with the identities seen then; an entry is forgotten as
    soon as a manager operation changes what is prescribed for the resource.  Whenever a resource
    is observed again while its prescribed classes (pairwise different) never changed in
    between, the objects must be the same ones. *)
Definition obs_classes (ob : idobs) : list N := fold_right insert_sorted [] (map (fun x : N * N * N => fst (fst x)) ob).

Definition lastmap := list (N * (list N * idobs)).
Fixpoint lookup_last (res : N) (l : lastmap) : option (list N * idobs) :=
  match l with [] => None | (k, v) :: tl => if k =? res then Some v else lookup_last res tl end.

Fixpoint ok_c11 (iso : bool) (f : refmap) (last : lastmap) (ops : list c11cmd) (obs : list idobs) : bool :=
  match ops with
  | [] => match obs with [] => true | _ => false end
  | CM o :: tl =>
      let f' := fst (rstep iso f o) in
      ok_c11 iso f' (filter (fun kv : N * (list N * idobs) =>
                               nlist_eqb (sorted_classes (ref_rules f' (fst kv))) (fst (snd kv))) last) tl obs
  | CT res :: tl =>
      match obs with
      | [] => false
      | ob :: obs' =>
          let cls := sorted_classes (ref_rules f res) in
          (* judged only when what is observed carries exactly the prescribed classes, now and at the
             previous observation (an equal rule under another id may legitimately be held twice:
             the rule sets hash the id but compare without it) *)
          (match lookup_last res last with
           | Some (cls0, ob0) =>
               if nlist_eqb cls cls0 && nodup_classes cls &&
                  nlist_eqb (obs_classes ob) cls && nlist_eqb (obs_classes ob0) cls0
               then same_ids ob ob0 else true
           | None => true
           end) &&
          ok_c11 iso f ((res, (cls, ob)) :: filter (fun kv : N * (list N * idobs) => negb (fst kv =? res)) last) tl obs'
      end
  end.

(** the model's identity observations *)
Fixpoint c11_run (iso : bool) (m : mgr) (ops : list c11cmd) : list idobs :=
  match ops with
  | [] => []
  | CM o :: tl => c11_run iso (fst (mstep iso m o)) tl
  | CT res :: tl => map (fun c => (class_of (c_rule c), c_tok c, c_stat c)) (m_live m res) :: c11_run iso m tl
  end.
