(** C13 specification, as an executable predicate over what was configured and what was
    observed.  It does not mention the chain's internal order. *)
From SV Require Import Model.Base Model.SlotChain.
Open Scope N_scope.

Definition sl_eqb (a b : sl) : bool := (s_id a =? s_id b) && (s_ord a =? s_ord b).

Fixpoint count_sl (x : sl) (l : list sl) : nat :=
  match l with [] => O | y :: tl => if sl_eqb x y then S (count_sl x tl) else count_sl x tl end.

(** same multiset *)
Definition perm_b (l1 l2 : list sl) : bool :=
  forallb (fun x => Nat.eqb (count_sl x l1) (count_sl x l2)) (l1 ++ l2).

Fixpoint ascending (l : list sl) : bool :=
  match l with
  | [] => true
  | x :: tl => match tl with [] => true | y :: _ => (s_ord x <=? s_ord y) && ascending tl end
  end.

(** the slots of a phase: exactly the configured ones, each once, ascending order value *)
Definition phase_ok (configured seen : list sl) : bool := perm_b configured seen && ascending seen.

Fixpoint take_prep (t : list ev) : list sl * list ev :=
  match t with EPrep s :: tl => let '(a, r) := take_prep tl in (s :: a, r) | _ => ([], t) end.
Fixpoint take_check (t : list ev) : list sl * list ev :=
  match t with ECheck s :: tl => let '(a, r) := take_check tl in (s :: a, r) | _ => ([], t) end.
Fixpoint take_pass (t : list ev) : list sl * list ev :=
  match t with EPass s :: tl => let '(a, r) := take_pass tl in (s :: a, r) | _ => ([], t) end.
Fixpoint take_blocked (k : N) (t : list ev) : list sl * list ev :=
  match t with
  | EBlocked s k' :: tl => if k' =? k then let '(a, r) := take_blocked k tl in (s :: a, r) else ([], t)
  | _ => ([], t)
  end.
Fixpoint take_done (t : list ev) : list sl * list ev :=
  match t with EDone s :: tl => let '(a, r) := take_done tl in (s :: a, r) | _ => ([], t) end.

Definition is_blocking (res : N -> cres) (s : sl) : bool :=
  match res (s_id s) with CBlocked _ => true | _ => false end.
Definition blocks_with (res : N -> cres) (k : N) (s : sl) : bool :=
  match res (s_id s) with CBlocked k' => k' =? k | _ => false end.

(** [pre chk stat] are the slots as they were added (any order); [res] the result each
    check slot returns; [r] the outcome of build (None = admitted, Some k = Err of type k);
    [tb] the events during build, [te] the events during the caller's exit. *)
Definition ok_C13 (pre chk stat : list sl) (res : N -> cres)
           (r : option N) (tb te : list ev) : bool :=
  let '(p, t1) := take_prep tb in
  let '(c, t2) := take_check t1 in
  phase_ok pre p && phase_ok chk c &&
  match r with
  | None =>
      (* admitted: no check blocked; every stat slot told "pass" once; one completion each on exit *)
      negb (existsb (is_blocking res) chk) &&
      (let '(s, t3) := take_pass t2 in phase_ok stat s && match t3 with [] => true | _ => false end) &&
      (let '(d, t4) := take_done te in phase_ok stat d && match t4 with [] => true | _ => false end)
  | Some k =>
      (* blocked: some check slot blocked with this very type; every stat slot told "blocked"
         once with it; no completion, neither in build's self-exit nor later *)
      existsb (blocks_with res k) chk &&
      (let '(s, t3) := take_blocked k t2 in phase_ok stat s && match t3 with [] => true | _ => false end) &&
      match te with [] => true | _ => false end
  end.
