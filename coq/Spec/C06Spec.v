(** C06 specification: hotspot QPS limiting is a per-value token bucket with no cross-talk. *)
From SV Require Import Model.Base.
Open Scope N_scope.

(** A request seen by a rule: (time in ms, parameter value, batch count). *)
Definition req := (N * N * N)%type.

(** Reference token bucket of ONE value: threshold [q], burst [b], duration [D] ms.
    State: None before the first request, else (time of last fill, remaining tokens). *)
Definition tb_step (q b D : N) (st : option (N * N)) (now n : N) : option (N * N) * bool :=
  if q =? 0 then (st, false) else
  let m := q + b in
  if m <? n then (st, false) else
  match st with
  | None => (Some (now, m - n), true)
  | Some (last, rest) =>
      let gap := now - last in
      if D <? gap then
        let avail := if m <? gap * q / D + rest then m else gap * q / D + rest in
        if avail <? n then (st, false) else (Some (now, avail - n), true)
      else if n <=? rest then (Some (last, rest - n), true) else (st, false)
  end.

(** run the bucket over the requests of one value (oldest first); decisions in order *)
Fixpoint tb_run (q b D : N) (st : option (N * N)) (l : list (N * N)) : list bool :=
  match l with
  | [] => []
  | (now, n) :: tl => let '(st', d) := tb_step q b D st now n in d :: tb_run q b D st' tl
  end.

(** tokens admitted among (request, decision) pairs *)
Fixpoint admitted (l : list (N * N)) (ds : list bool) : N :=
  match l, ds with
  | (_, n) :: tl, d :: ds' => (if d then n else 0) + admitted tl ds'
  | _, _ => 0
  end.

Definition first_time (l : list (N * N)) : N := match l with [] => 0 | (t, _) :: _ => t end.
Fixpoint last_time (l : list (N * N)) (d : N) : N := match l with [] => d | (t, _) :: tl => last_time tl t end.

(** projection of a request list to one value *)
Definition proj (v : N) (l : list req) : list (N * N) :=
  flat_map (fun r : req => let '(t, v', n) := r in if v' =? v then [(t, n)] else []) l.
Definition proj_dec (v : N) (l : list req) (ds : list bool) : list bool :=
  flat_map (fun rd : req * bool => let '((_, v', _), d) := rd in if v' =? v then [d] else []) (combine l ds).

(** the C06 bound for one value, cross-multiplied:
    D * admitted <= D * (q + b) + q * (t_last - t_first) *)
Definition bound_ok (q b D : N) (l : list (N * N)) (ds : list bool) : bool :=
  D * admitted l ds <=? D * (q + b) + q * (last_time l (first_time l) - first_time l).
