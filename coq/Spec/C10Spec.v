(** C10 specification: a rule manager holds and enforces exactly the valid rules last given,
    per resource, including appends.  A reference map, with no controllers, no reuse and no
    rebuild: per resource the as-given rule set (for the "unchanged" answers) and nothing else;
    what must be reported and enforced is its valid part that names the resource. *)
From SV Require Import Model.Base Model.Manager.
Open Scope N_scope.

Record refmap := mkRef { rf_given : rmap; rf_keys : list N }.
Definition ref0 : refmap := mkRef (fun _ => []) [].

(** the rules a resource must report and enforce *)
Definition ref_rules (f : refmap) (res : N) : list rule :=
  filter (fun r => r_valid r && (r_res r =? res)) (rf_given f res).

Definition ref_given_eqb (f : refmap) (rs : list rule) : bool :=
  let ks := res_of rs in
  forallb (fun k => set_eqb (rf_given f k) (group rs k)) (ks ++ rf_keys f).

Definition rstep (iso : bool) (f : refmap) (o : mop) : refmap * mret :=
  match o with
  | MLoadAll rs =>
      if ref_given_eqb f rs then (f, RFalse)
      else (mkRef (fun k => group rs k) (res_of rs), RTrue)
  | MLoadRes res rs =>
      if res =? 0 then (f, RErr) else
      match dedup rs with
      | [] => (mkRef (set_map (rf_given f) res []) (rf_keys f), RTrue)
      | given => if set_eqb (rf_given f res) given then (f, RFalse)
                 else (mkRef (set_map (rf_given f) res given) (add_key res (rf_keys f)), RTrue)
      end
  | MAppend r =>
      if mem_rule r (if iso then valid_of (rf_given f (r_res r)) else rf_given f (r_res r)) then (f, RFalse) else
      if negb (r_valid r) then (f, if iso then RTrue else RFalse) else
      (mkRef (set_map (rf_given f) (r_res r) (rf_given f (r_res r) ++ [r])) (add_key (r_res r) (rf_keys f)), RTrue)
  | MClear => (ref0, RUnit)
  | MClearRes res => (mkRef (set_map (rf_given f) res []) (rf_keys f), RUnit)
  end.
