(** C04 specification: every entry is accounted exactly once. *)
From SV Require Import Model.Base Model.LeapArray Model.World Spec.C02Spec Spec.WorldSpec.
Open Scope N_scope.

Definition wout_eqb (a b : wout) : bool :=
  match a, b with
  | ZRead a1 a2 a3 a4 a5, ZRead b1 b2 b3 b4 b5 =>
      (a1 =? b1) && (a2 =? b2) && (a3 =? b3) && (a4 =? b4) && (a5 =? b5)
  | _, _ => false
  end.

(** Each build is answered by admit xor block, each exit of an open entry by "exited", and
    every read equals what the outcomes so far imply: in-flight = admitted and not exited;
    pass / block / complete / rt sums over the default metric window computed directly from
    the implied events (batch counts, response time = exit time - build time); the inbound
    node mirrors inbound entries only. *)
Fixpoint ok_c04 (c : cfg) (gh : ghost) (ops : list cmd) (outs : list wout) : bool :=
  match ops, outs with
  | [], [] => true
  | x :: ops', o :: outs' =>
      match gh_step gh x o with
      | None => false
      | Some gh' =>
          (match x with
           | WR res => wout_eqb o (expect_read c (g_hist gh res) (g_fly gh res) (g_now gh))
           | WRI => wout_eqb o (expect_read c (g_inb gh) (g_inbfly gh) (g_now gh))
           | _ => true
           end) && ok_c04 c gh' ops' outs'
      end
  | _, _ => false
  end.
