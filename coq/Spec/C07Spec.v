(** C07 specification: throttling paces admissions, bounds queueing and really delays the
    caller.  A reference pacer, independent of the checker's code structure. *)
From SV Require Import Model.Base.
Open Scope Z_scope.

(** Reference pacer.  [s] = scheduled time of the last admission (a state), [t] = arrival time,
    [cost] = minimum distance to the previous admission (batch*interval/rate, as the rule
    computes it), [maxq] = maximum queueing time; [strict] = whether a wait equal to [maxq] is
    already too long (hotspot) or still allowed (flow).
    Result: (new state, Some scheduled_time | None when rejected). *)
Definition pace (strict : bool) (s t cost maxq : Z) : Z * option Z :=
  let e := s + cost in
  if e <=? t then (t, Some t)
  else if (if strict then e - t <? maxq else e - t <=? maxq) then (e, Some e)
  else (s, None).

(** Admissions of a request list [(arrival, cost)] (non-decreasing arrivals) *)
Fixpoint pace_run (strict : bool) (maxq : Z) (s : Z) (l : list (Z * Z)) : list (option Z) :=
  match l with
  | [] => []
  | (t, cost) :: tl => let '(s', o) := pace strict s t cost maxq in o :: pace_run strict maxq s' tl
  end.

(** the scheduled times of the admitted requests, with their costs, oldest first *)
Fixpoint admissions (l : list (Z * Z)) (os : list (option Z)) : list (Z * Z) :=
  match l, os with
  | (_, cost) :: tl, Some sch :: os' => (sch, cost) :: admissions tl os'
  | _ :: tl, None :: os' => admissions tl os'
  | _, _ => []
  end.

(** consecutive admissions are at least the later one's cost apart *)
Fixpoint spaced (prev : Z) (l : list (Z * Z)) : Prop :=
  match l with
  | [] => True
  | (sch, cost) :: tl => prev + cost <= sch /\ spaced sch tl
  end.
