(** C05 (hotspot part): per-value concurrency caps of hotspot concurrency rules. *)
From SV Require Import Model.Base Model.Hotspot.
Open Scope N_scope.

Definition opt_eqb (a : option N) (v : N) : bool := match a with Some x => x =? v | None => false end.

(** open entries whose extracted parameter value (under rule r) is v *)
Definition count_open (r : hrule) (v : N) (open : list (N * hentry)) : N :=
  N.of_nat (length (filter (fun ie : N * hentry => opt_eqb (extract r (he_args (snd ie)) (he_att (snd ie))) v) open)).

(** One concurrency rule [r] on the resource.  A build whose parameter value is v, while k
    entries with that value are open, is admitted exactly when k + 1 <= T_v (T_v = the value's
    override, else the rule threshold); a rejection names the rule and carries k + 1.
    Builds without an extractable value are admitted. *)
Fixpoint ok_c05h (r : hrule) (open : list (N * hentry)) (ops : list hcmd) (obs : list hobs) : bool :=
  match ops, obs with
  | [], [] => true
  | HB id args att n :: ops', o :: obs' =>
      match extract r args att with
      | None => match o with HOAdmit _ => ok_c05h r ((id, mkHE args att) :: open) ops' obs' | _ => false end
      | Some v =>
          let k := count_open r v open in
          match o with
          | HOAdmit _ => (k + 1 <=? thr_of r v) && ok_c05h r ((id, mkHE args att) :: open) ops' obs'
          | HOBlock rl sn _ => negb (k + 1 <=? thr_of r v) && (rl =? h_id r) && (sn =? k + 1) && ok_c05h r open ops' obs'
          | _ => false
          end
      end
  | HX id :: ops', o :: obs' =>
      match find_hentry id open, o with
      | Some (_, rest), HOExited => ok_c05h r rest ops' obs'
      | None, HONoEntry => ok_c05h r open ops' obs'
      | _, _ => false
      end
  | HA _ :: ops', HOTick :: obs' => ok_c05h r open ops' obs'
  | _, _ => false
  end.

Definition thresholds_pos (r : hrule) : bool :=
  (1 <=? h_thr r) && forallb (fun vt : N * N => 1 <=? snd vt) (h_spec r).
