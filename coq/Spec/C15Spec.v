(** C15 (deadlock part): the lock order of the rule managers and the node store, and the
    acquisition contexts the code is known to have.  Locks are numbered
      0 flow.GEN_FUN_MAP        1 flow.CONTROLLER_MAP          2 flow.RULE_MAP
      3 hotspot.GEN_FUN_MAP     4 hotspot.CONTROLLER_MAP       5 hotspot.RULE_MAP
      6 breaker.GEN_FUN_MAP     7 breaker.STATE_CHANGE_LISTERNERS   8 breaker.BREAKER_MAP
      9 breaker.CURRENT_RULES  10 breaker.BREAKER_RULES
     11 isolation.RULE_MAP     12 isolation.CURRENT_RULES
     13 system.RULE_MAP        14 system.CURRENT_RULES
     15 stat.RESOURCE_NODE_MAP
     16 the state mutex of a breaker (all breakers' state mutexes are one lock here: no code path holds two) *)
From SV Require Import Model.Base Model.Locks.

(** rule maps as given < controller / breaker maps < generator maps (the breaker generator map stays read-locked
    while replaced breakers are dropped and while a custom generator runs) < breaker state (read when a breaker is
    dropped; held by every transition while it tells the listeners) < listener list < valid-rule maps (a listener or
    a generator may read them) < node map *)
Definition lock_rank (l : nat) : nat :=
  match l with
  | 2 => 10 | 1 => 11 | 0 => 12
  | 5 => 20 | 4 => 21 | 3 => 22
  | 9 => 30 | 8 => 31 | 6 => 32 | 16 => 33 | 7 => 34 | 10 => 35
  | 12 => 40 | 11 => 41
  | 14 => 50 | 13 => 51
  | 15 => 90
  | _ => 100
  end%nat.

(** every context in which the code takes one of these locks (lock, locks held) *)
Definition known_contexts : list (nat * list nat) :=
  [ (2, []); (1, [2]); (0, [1; 2]); (15, [0; 1; 2]); (1, []); (0, []);
    (5, []); (4, [5]); (3, [4; 5]); (4, []); (3, []);
    (9, []); (8, [9]); (10, [8; 9]); (6, [8; 9]); (8, []); (10, []); (6, []); (7, []);
    (10, [7; 8]); (10, [7; 8; 9]);      (* a listener reads the rules while a breaker is being dropped *)
    (16, []); (7, [16]);                (* a transition, or the exit hook of a rejected probe: state, then the listeners *)
    (16, [8]); (16, [8; 9]); (7, [8]); (7, [8; 9]);   (* a breaker dropped under the breaker map: state read and released, then the listeners *)
    (16, [6; 8; 9]); (7, [6; 8; 9]); (10, [6; 7; 8; 9]);   (* append_rule drops a replaced breaker while the generator map is still read-locked *)
    (10, [6; 8; 9]);                    (* a custom generator reads the rules while it builds a breaker *)
    (12, []); (11, [12]); (11, []);
    (14, []); (13, [14]); (13, []);
    (15, []) ]%nat.

(** an observed context is acceptable for the property when it respects the lock order *)
Definition spec_ctx (c : nat * list nat) : bool := ctx_ok lock_rank c.
