(** C19: what the line-limited search must return on a well-formed directory, and what both
    searches must return on a directory whose last file was torn by a crash. *)
From SV Require Import Model.Base Model.MetricLine Model.MetricLog Spec.C19Inv Spec.C19Search.
Open Scope N_scope.

Definition dummy_item : mitem := mkMI [] 0 0 0 0 0 0 0 0 0.

(** [out] is what a search with line limit [max] may return when [items] is what lies behind the
    starting index entry: a prefix in write order, not cut short (everything, or at least [max]
    lines), and whatever exceeds the limit belongs to the second of the last line within it *)
Definition max_ok (items : list mitem) (max : N) (out : list mitem) : Prop :=
  exists n : nat,
    out = map norm (firstn n items) /\
    (n = length items \/ (N.to_nat max <= n)%nat) /\
    (0 < max -> forall k, (N.to_nat max <= k < n)%nat ->
       sec_of (nth k items dummy_item) = sec_of (nth (N.to_nat max - 1) items dummy_item)).

(** a crash: every file but the last is intact; of the last file [n] items and [m] index entries
    were written completely, the log holds [k] bytes (the complete lines and a strict part of the
    next one), the index [j] bytes (the complete entries and a strict part of the next one) *)
Record torn := mkTorn { t_items : list mitem; t_ents : list (N * N); t_n : nat; t_m : nat; t_k : nat; t_j : nat }.

Definition torn_ok (t : torn) : Prop :=
  (t_n t <= length (t_items t))%nat /\ (t_m t <= length (t_ents t))%nat /\
  (length (log_of (firstn (t_n t) (t_items t))) <= t_k t)%nat /\
  (t_n t < length (t_items t) -> t_k t < length (log_of (firstn (S (t_n t)) (t_items t))))%nat /\
  (t_n t = length (t_items t) -> t_k t = length (log_of (t_items t)))%nat /\
  (16 * t_m t <= t_j t < 16 * S (t_m t))%nat /\
  (t_m t = length (t_ents t) -> t_j t = 16 * t_m t)%nat.

(** the last file as the crash left it, and the same file reduced to what was written completely *)
Definition torn_file (day no : N) (t : torn) : mfile :=
  mkMF day no (firstn (t_k t) (log_of (t_items t))) (firstn (t_j t) (idx_of (t_ents t))).
Definition cut_file (day no : N) (t : torn) : afile :=
  mkAF day no (firstn (t_n t) (t_items t)) (firstn (t_m t) (t_ents t)).

(** a crash between the index entry of a new second and that second's first line: the writer
    issues the 16 index bytes of a new second before the line.  As [torn_ok], except that the
    index may also hold one more complete entry (number [t_m]) than the [t_m] entries whose lines
    are complete; that dangling entry points at the end of the complete lines, and its numbers are
    within u64.  [cut_file] still keeps the [t_m] entries whose lines are complete. *)
Definition torn_ok2 (t : torn) : Prop :=
  (t_n t <= length (t_items t))%nat /\ (t_m t <= length (t_ents t))%nat /\
  (length (log_of (firstn (t_n t) (t_items t))) <= t_k t)%nat /\
  (t_n t < length (t_items t) -> t_k t < length (log_of (firstn (S (t_n t)) (t_items t))))%nat /\
  (t_n t = length (t_items t) -> t_k t = length (log_of (t_items t)))%nat /\
  (((16 * t_m t <= t_j t < 16 * S (t_m t))%nat /\
    (t_m t = length (t_ents t) -> t_j t = 16 * t_m t)%nat)
   \/
   ((t_m t < length (t_ents t))%nat /\
    (16 * S (t_m t) <= t_j t < 16 * S (S (t_m t)))%nat /\
    (S (t_m t) = length (t_ents t) -> t_j t = 16 * S (t_m t))%nat /\
    snd (nth (t_m t) (t_ents t) (0, 0)) = N.of_nat (length (log_of (firstn (t_n t) (t_items t)))) /\
    fst (nth (t_m t) (t_ents t) (0, 0)) < U64 /\ snd (nth (t_m t) (t_ents t) (0, 0)) < U64)).
