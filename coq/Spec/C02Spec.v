(** C02 specification: what a window read must return, computed directly from the list
    of recorded events (no ring, no slots). *)
From SV Require Import Model.Base Model.LeapArray.
Open Scope N_scope.

(** The bucket of time [t] lies in the read window of [w] ending at [now]:
    start(now) - interval + bucket_len <= start(t) <= start(now). *)
Definition in_window (g : geom) (w : win) (now t : N) : bool :=
  (start g now - w_iv w + bl g <=? start g t) && (start g t <=? start g now).

(** Sum of the counts of kind [ev] recorded in the window. *)
Definition spec_sum (g : geom) (w : win) (now : N) (ev : mevent) (h : list ev_t) : N :=
  fold_right (fun (e : ev_t) acc =>
    if in_window g w now (fst e) then
      match snd e with
      | WAdd ev' n => if mevent_eqb ev' ev then n + acc else acc
      | WConc _ => acc
      end
    else acc) 0 h.

(** Minimum response time recorded in the window (capped by the default maximum). *)
Definition spec_min_rt (g : geom) (w : win) (now : N) (h : list ev_t) : N :=
  fold_right (fun (e : ev_t) acc =>
    if in_window g w now (fst e) then
      match snd e with WAdd Rt n => N.min n acc | _ => acc end
    else acc) MAX_RT h.

(** Largest concurrency recorded in the window. *)
Definition spec_max_conc (g : geom) (w : win) (now : N) (h : list ev_t) : N :=
  fold_right (fun (e : ev_t) acc =>
    if in_window g w now (fst e) then
      match snd e with WConc c => N.max c acc | _ => acc end
    else acc) 0 h.

(** ** The whole-array count (BucketLeapArray::count_with_time): the events of kind [ev] whose
    bucket is still valid at [now] (not older than one ring interval) and has not been recycled
    for a later bucket of the same slot. *)
Definition latest_in_slot (g : geom) (h : list ev_t) (t : N) : bool :=
  forallb (fun e' : ev_t => negb ((idx g (fst e') =? idx g t) && (start g t <? start g (fst e')))) h.

Definition spec_count (g : geom) (now : N) (ev : mevent) (h : list ev_t) : N :=
  fold_right (fun (e : ev_t) acc =>
    match snd e with
    | WAdd ev' n =>
        if mevent_eqb ev' ev && negb (deprecated now (iv g) (start g (fst e))) && latest_in_slot g h (fst e)
        then n + acc else acc
    | WConc _ => acc
    end) 0 h.
