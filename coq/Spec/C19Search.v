(** C19: what a search by time range and resource must return on a well-formed directory. *)
From SV Require Import Model.Base Model.MetricLine Model.MetricLog Spec.C19Inv.
Open Scope N_scope.

(** an abstract file: the items written to it, in order, and its index entries *)
Record afile := mkAF { a_day : N; a_no : N; a_items : list mitem; a_ents : list (N * N) }.
Definition conc (f : afile) : mfile := mkMF (a_day f) (a_no f) (log_of (a_items f)) (idx_of (a_ents f)).

Fixpoint nondecr (l : list N) : Prop :=
  match l with
  | a :: ((b :: _) as tl) => a <= b /\ nondecr tl
  | _ => True
  end.

Definition U64 : N := 18446744073709551616.

(** files in listing order, every index entry right (it points at the first line of its second),
    entries in increasing order, items printable, seconds never decreasing along the whole
    directory, numbers within u64 *)
Definition good_dir (fs : list afile) : Prop :=
  sorted_files (map conc fs) = map conc fs /\
  Forall (fun f => Forall (entry_ok (a_items f)) (a_ents f) /\ increasing (map fst (a_ents f))) fs /\
  Forall (fun f => Forall (fun i => item_wf i /\ name_ok i) (a_items f)) fs /\
  nondecr (map sec_of (flat_map a_items fs)) /\
  Forall (fun f => Forall (fun e => fst e < U64 /\ snd e < U64) (a_ents f)) fs.

(** the items of a file from a byte offset that is a line boundary *)
Fixpoint after_offset (items : list mitem) (off : nat) : list mitem :=
  match off, items with
  | O, _ => items
  | _, [] => []
  | _, i :: tl => let n := S (length (to_line i)) in
                  if Nat.leb n off then after_offset tl (off - n) else items
  end.

(** the items from the first index entry, in directory order, whose second is at least [bsec];
    None when no such entry exists *)
Fixpoint from_first_entry (fs : list afile) (bsec : N) : option (list mitem) :=
  match fs with
  | [] => None
  | f :: tl =>
      match find (fun e : N * N => bsec <=? fst e) (a_ents f) with
      | Some e => Some (after_offset (a_items f) (N.to_nat (snd e)) ++ flat_map a_items tl)
      | None => from_first_entry tl bsec
      end
  end.

Fixpoint take_while {A} (p : A -> bool) (l : list A) : list A :=
  match l with [] => [] | x :: tl => if p x then x :: take_while p tl else [] end.

Definition res_match (res : bytes) (i : mitem) : bool :=
  match res with [] => true | _ => bytes_eqb res (mi_res (norm i)) end.

(** the search result the property prescribes: from the first indexed second at or after the begin
    second, in write order, up to the end second, of the requested resource *)
Definition expected_by_time (fs : list afile) (bsec esec : N) (res : bytes) : list mitem :=
  match from_first_entry fs bsec with
  | None => []
  | Some items => map norm (filter (res_match res) (take_while (fun i => sec_of i <=? esec) items))
  end.
