(** C16: circuit-breaker transitions are atomic under concurrency.  Executable predicate over
    the common log of listener events, build results and exits (in the order they happened). *)
From SV Require Import Model.Base Model.LeapArray Model.Breaker Model.ConcCb.
Open Scope N_scope.

Definition valid_tr (a b : bstate) : bool :=
  match a, b with
  | Closed, Open | Open, HalfOpen | HalfOpen, Open | HalfOpen, Closed => true
  | _, _ => false
  end.

(** [s] = the state the listeners have been told; [pend] = the threads that performed an
    Open -> Half-Open transition and whose build result is still to come (normally at most one;
    a probe that a later rule rejects can still be on its way out when a later phase starts).
    Only such a thread's request may be admitted while the breaker is not Closed; whatever other
    threads complete meanwhile, every transition reported must start from the state told last;
    Half-Open goes back to Open either through a failed completion (new deadline) or as the
    roll-back of a thread that probed (a thread that never probed must not roll anything back). *)
Fixpoint mem_n (x : N) (l : list N) : bool := match l with [] => false | y :: tl => (x =? y) || mem_n x tl end.
Fixpoint del_n (x : N) (l : list N) : list N :=
  match l with [] => [] | y :: tl => if x =? y then tl else y :: del_n x tl end.

Fixpoint ok_log (retry_ms : N) (s : bstate) (pend : list N) (log : list cev) : bool :=
  match log with
  | [] => match pend with [] => true | _ => false end
  | e :: tl =>
      match e with
      | ETrans who from to now retry =>
          bstate_eqb from s && valid_tr from to &&
          (match from, to with
           | Open, HalfOpen => retry <=? now                      (* never before the retry deadline *)
           | Closed, Open => retry =? now + retry_ms
           | HalfOpen, Open => (retry =? now + retry_ms) || mem_n who pend
           | _, _ => true
           end) &&
          ok_log retry_ms to (match from, to with Open, HalfOpen => who :: pend | _, _ => pend end) tl
      | EBuild who adm =>
          if mem_n who pend then ok_log retry_ms s (del_n who pend) tl      (* a probe's own result *)
          else (if adm then bstate_eqb s Closed else true) && ok_log retry_ms s pend tl
      | EExit _ _ _ => ok_log retry_ms s pend tl
      end
  end.

Definition ok_c16 (r : brule) (log : list cev) : bool := ok_log (br_retry_ms r) Closed [] log.

(** the state the listeners were told last *)
Fixpoint log_state (s : bstate) (log : list cev) : bstate :=
  match log with
  | [] => s
  | ETrans _ _ to _ _ :: tl => log_state to tl
  | _ :: tl => log_state s tl
  end.
