(** C16: circuit-breaker transitions are atomic under concurrency.  Executable predicate over
    the common log of listener events, build results and exits (in the order they happened). *)
From SV Require Import Model.Base Model.LeapArray Model.Breaker Model.ConcCb.
Open Scope N_scope.

Definition valid_tr (a b : bstate) : bool :=
  match a, b with
  | Closed, Open | Open, HalfOpen | HalfOpen, Open | HalfOpen, Closed => true
  | _, _ => false
  end.

(** [s] = the state the listeners have been told; [probe] = the thread that performed the
    Open -> Half-Open transition of the current phase and whose build result is still to come.
    Only that thread's request may be admitted while the breaker is not Closed; whatever other
    threads complete meanwhile, every transition reported must start from the state told last. *)
Fixpoint ok_log (retry_ms : N) (s : bstate) (probe : option N) (log : list cev) : bool :=
  match log with
  | [] => match probe with None => true | Some _ => false end
  | e :: tl =>
      match e with
      | ETrans who from to now retry =>
          bstate_eqb from s && valid_tr from to &&
          (match from, to with
           | Open, HalfOpen => retry <=? now                      (* never before the retry deadline *)
           | Closed, Open => retry =? now + retry_ms
           | _, _ => true
           end) &&
          ok_log retry_ms to (match from, to with Open, HalfOpen => Some who | _, _ => probe end) tl
      | EBuild who adm =>
          match probe with
          | Some w =>
              if who =? w then ok_log retry_ms s None tl          (* the probe's own result, admitted or rejected by a later rule *)
              else (if adm then bstate_eqb s Closed else true) && ok_log retry_ms s probe tl
          | None => (if adm then bstate_eqb s Closed else true) && ok_log retry_ms s None tl
          end
      | EExit _ _ _ => ok_log retry_ms s probe tl
      end
  end.

Definition ok_c16 (r : brule) (log : list cev) : bool := ok_log (br_retry_ms r) Closed None log.

(** the state the listeners were told last *)
Fixpoint log_state (s : bstate) (log : list cev) : bstate :=
  match log with
  | [] => s
  | ETrans _ _ to _ _ :: tl => log_state to tl
  | _ :: tl => log_state s tl
  end.
