(** C07: executable predicates over observed traces (single-rule resources). *)
From SV Require Import Model.Base Model.F64 Model.Throttle Model.Hotspot Spec.C07Spec.
Open Scope Z_scope.

(** Flow throttling, one rule [r]: every build is answered as the reference pacer prescribes,
    and the clock observed after the build is the scheduled time (the caller was held). *)
Fixpoint ok_c07_flow (r : trule) (s now : Z) (ops : list tcmd) (obs : list tobs) : bool :=
  match ops, obs with
  | [], [] => true
  | TA dt :: ops', TOTick :: obs' => ok_c07_flow r s (now + dt) ops' obs'
  | TB n :: ops', o :: obs' =>
      if (n =? 0)%N then
        match o with TOAdmit a => (a =? now) && ok_c07_flow r s now ops' obs' | _ => false end
      else if fle (t_thr r) (f64_of_Z 0) || flt (t_thr r) (f64_of_N n) then
        match o with TOBlock _ a => (a =? now) && ok_c07_flow r s now ops' obs' | _ => false end
      else
        let '(s', d) := pace false s now (interval_ns r n) (maxq_ns r) in
        match d, o with
        | Some sch, TOAdmit a => (a =? sch) && ok_c07_flow r s' a ops' obs'
        | None, TOBlock rl a => (a =? now) && (rl =? t_id r)%N && ok_c07_flow r s' now ops' obs'
        | _, _ => false
        end
  | _, _ => false
  end.

(** Hotspot throttling, one rule [r] (times in ms): per parameter value, the first request is
    admitted at once; later ones as the reference pacer (strict queue limit) prescribes; the
    clock after the build is the scheduled time.  [st v] = scheduled time of v's last admission. *)
Fixpoint ok_c07_hot (r : hrule) (st : N -> option N) (now : N) (ops : list hcmd) (obs : list hobs) : bool :=
  match ops, obs with
  | [], [] => true
  | HA dt :: ops', HOTick :: obs' => ok_c07_hot r st (now + dt)%N ops' obs'
  | HX _ :: ops', HOExited :: obs' => ok_c07_hot r st now ops' obs'
  | HX _ :: ops', HONoEntry :: obs' => ok_c07_hot r st now ops' obs'
  | HB _ args att n :: ops', o :: obs' =>
      match extract r args att with
      | None => match o with HOAdmit a => (a =? now)%N && ok_c07_hot r st now ops' obs' | _ => false end
      | Some v =>
          let q := thr_of r v in
          if (q =? 0)%N then
            match o with HOBlock rl _ a => (a =? now)%N && (rl =? h_id r)%N && ok_c07_hot r st now ops' obs' | _ => false end
          else
            match st v with
            | None => match o with
                      | HOAdmit a => (a =? now)%N && ok_c07_hot r (fset st v now) now ops' obs'
                      | _ => false
                      end
            | Some s =>
                let '(s', d) := pace true (Z.of_N s) (Z.of_N now) (Z.of_N (throttle_cost r q n)) (Z.of_N (h_maxq r)) in
                match d, o with
                | Some sch, HOAdmit a => (Z.of_N a =? sch) && ok_c07_hot r (fset st v (Z.to_N s')) a ops' obs'
                | None, HOBlock rl _ a => (a =? now)%N && (rl =? h_id r)%N && ok_c07_hot r st now ops' obs'
                | _, _ => false
                end
            end
      end
  | _, _ => false
  end.
