(** C19: the crash point.  What is on disk when a write is interrupted after the first [k] bytes it
    issued (the 16 index bytes of a new second first, then the lines).  The definitions are the
    ones the correspondence run uses (Run/RunMlog.v imports them from here). *)
From SV Require Import Model.Base Model.MetricLine Model.MetricLog Spec.C19Inv.
Open Scope N_scope.

(** numeric order for the dump *)
Definition num_ltb (a b : mfile) : bool :=
  if f_day a <? f_day b then true else if f_day b <? f_day a then false else f_no a <? f_no b.
Fixpoint insert_num (x : mfile) (l : list mfile) : list mfile :=
  match l with [] => [x] | y :: tl => if num_ltb y x then y :: insert_num x tl else x :: y :: tl end.

(** crash during the previous write: keep the first k bytes it issued (index entry, then lines) *)
Definition same_names (a b : list mfile) : bool :=
  let key := fun f => (f_day f, f_no f) in
  let fa := fold_right insert_num [] a in
  let fb := fold_right insert_num [] b in
  (length fa =? length fb)%nat &&
  forallb (fun p => (f_day (fst p) =? f_day (snd p)) && (f_no (fst p) =? f_no (snd p)) &&
                   (length (f_log (fst p)) <=? length (f_log (snd p)))%nat &&
                   (length (f_idx (fst p)) <=? length (f_idx (snd p)))%nat) (combine fa fb).

Definition crash_file (k : N) (before after : mfile) : mfile :=
  let lb := N.of_nat (length (f_log before)) in
  let ib := N.of_nat (length (f_idx before)) in
  let la := N.of_nat (length (f_log after)) in
  let ia := N.of_nat (length (f_idx after)) in
  if (lb =? la) && (ib =? ia) then after else
  let didx := ia - ib in
  if k <? didx then mkMF (f_day after) (f_no after) (firstn (N.to_nat lb) (f_log after)) (firstn (N.to_nat (ib + k)) (f_idx after))
  else mkMF (f_day after) (f_no after) (firstn (N.to_nat (N.min la (lb + (k - didx)))) (f_log after)) (f_idx after).

Definition crash (k : N) (before after : list mfile) : option (list mfile) :=
  if same_names before after && negb (match after with [] => true | _ => false end) then
    let changed := existsb (fun a => match find (fun b => same_file b (f_day a) (f_no a)) before with
                                     | Some b => negb ((length (f_log b) =? length (f_log a))%nat && (length (f_idx b) =? length (f_idx a))%nat)
                                     | None => false end) after in
    if changed then
      Some (map (fun a => match find (fun b => same_file b (f_day a) (f_no a)) before with
                          | Some b => crash_file k b a | None => a end) after)
    else None
  else None.

(** what is written: timestamps and items printable, names without line feed *)
Definition ws_ok (ws : list (N * list mitem)) : Prop :=
  Forall (fun x => fst x <= U64_MAX /\ Forall (fun i => item_wf (with_ts (fst x) i) /\ name_ok i) (snd x)) ws.

(** the number of lines of [items] that lie entirely (line feed included) within the first [b] bytes
    of their log *)
Fixpoint complete_lines (items : list mitem) (b : nat) : nat :=
  match items with
  | [] => 0
  | i :: tl => if (S (length (to_line i)) <=? b)%nat
               then S (complete_lines tl (b - S (length (to_line i)))) else 0
  end.
