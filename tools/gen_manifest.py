#!/usr/bin/env python3
"""Regenerates /verif/MANIFEST.json from the table below (keeps it valid and consistent)."""
import json
import os

VERIF = os.path.dirname(os.path.dirname(os.path.abspath(__file__)))

CLAIMED = {
    "C02": {
        "text": "Theorems (Props/C02.v) over the executable Gallina model of LeapArray / MetricBucket / "
                "SlidingWindowMetric: for every ring geometry, every window accepted by the reuse check, every "
                "non-decreasing event history of any length and every read time not before the last write, "
                "sum / rate / average / minimum RT / max concurrency equal the values computed directly from the "
                "event list (no stale event, none missed); construction verdicts characterised exactly. The "
                "model is tied to the crate by a correspondence run (same histories on model and "
                "implementation, compared inside Coq, plus the Spec evaluated on the implementation's trace).",
        "design_ref": "DESIGN.md §6 C02, Appendix A.1",
        "note": "Trusted: Coq kernel + VM; stdlib classical axioms via Flocq for the two float-valued "
                "theorems; hand-written model validated by differential testing on generated histories; "
                "hooks (virtual clock, verif::stat wrappers). The whole-array count has its own theorem "
                "(C02_count_exact) and Spec clause.",
        "technique": "Coq proof (induction over the write history with a ring/history invariant) + "
                     "model-vs-implementation correspondence evaluated by vm_compute",
    },
    "C13": {
        "text": "Theorems (Props/C13.v) over the executable model of SlotChain::add_*/entry/exit and "
                "EntryBuilder::build: for every set of slots of the three kinds added in any order, every "
                "ascending arrangement the unstable sort may produce, and every assignment of "
                "pass/blocked(i)/wait to the check slots, the observable run satisfies the executable "
                "contract predicate ok_C13 (phases in order, each slot once, ascending order values, blocked iff "
                "a check blocked with a blocker's type, one pass-or-blocked notification, completion once iff "
                "admitted). The same predicate is evaluated on the implementation's recorded callbacks.",
        "design_ref": "DESIGN.md §6 C13, Appendix A.6",
        "note": "Trusted: Coq kernel + VM; model hand-written, validated against the crate through "
                "recording slots driven by EntryBuilder (finite sample of chains); exit handlers and panicking "
                "slots are outside the statement.",
        "technique": "Coq proof (any sorted permutation, list induction) + Spec predicate evaluated on "
                     "implementation traces by vm_compute",
    },
    "C01": {
        "text": "Theorem C01_admit_iff_fits (Props/C01.v) over the World model (entry pipeline: node lookup, "
                "flow slot with RejectChecker on a direct threshold over the default metric / a reused window / "
                "a private ring, statistics recorded after the checks, exits): for every configuration with a "
                "servable geometry, every rule set on any resources, every history of builds, exits and clock "
                "advances of any length, a build is admitted iff for every rule the tokens admitted in that "
                "rule's current window plus the batch do not exceed the threshold, and a rejection names a rule "
                "that does not fit. Proved by an invariant tying every ring to the ghost history of outcomes and "
                "the C02 window theorem. The same predicate is evaluated on implementation traces.",
        "design_ref": "DESIGN.md §6 C01, Appendix A.2",
        "note": "Trusted: Coq kernel + VM; thresholds are modelled as exact dyadic values and the f64 test "
                "`cur + batch > threshold` as an exact comparison (integers below 2^53); hand-written model "
                "validated by differential runs through EntryBuilder on the virtual clock; parsing of the error's "
                "Debug text. The bucket-aligned-window corollary is a consequence not separately stated in Coq yet.",
        "technique": "Coq proof (world/ghost refinement invariant + C02 window theorem) + correspondence by vm_compute",
    },
    "C04": {
        "text": "Theorem C04_accounting (Props/C04.v) over the World model: for every configuration, rule set "
                "(flow, isolation, and an arbitrary extra blocking slot standing for any other family), and every "
                "history of builds on any resources (inbound/outbound, any batch), exits in any order, clock "
                "advances and reads: no command panics, every build is answered by admit xor block, and every read "
                "of a resource node or the inbound node (in-flight, pass, block, complete, rt sums) equals what the "
                "outcomes imply (batch counts, rt = exit time - build time, blocked entries change neither "
                "in-flight nor completions, inbound mirrors inbound entries only).",
        "design_ref": "DESIGN.md §6 C04",
        "note": "Trusted: as C01. Exiting an entry twice and the hotspot / breaker statistic slots are outside "
                "this model (they are no-ops without their rules).",
        "technique": "Coq proof (world/ghost refinement invariant, induction over the history) + correspondence by vm_compute",
    },
    "C06": {
        "text": "Theorems (Props/C06.v) over the model of the hotspot RejectChecker: (1) the reference token "
                "bucket of one value obeys D*admitted <= D*(q+b) + q*(t_last - t_first) for every q, b, D>0 and "
                "every non-decreasing request sequence of any length (invariant D*(admitted+rest) <= D*m + "
                "q*(last-first)); (2) a rejection happens only for threshold 0, batch > q+b or insufficient "
                "available tokens, and changes nothing; (3) no cross-talk: in any mixed traffic the controller's "
                "decisions for value v equal those of v's own bucket (with v's override) run on v's requests "
                "alone. The model is compared with the crate through EntryBuilder on the virtual clock, and the "
                "bound and the per-value reference decisions are evaluated on the implementation's trace.",
        "design_ref": "DESIGN.md §6 C06, Appendix A.4",
        "note": "Trusted: Coq kernel + VM; LRU counters modelled as maps without eviction (the property is "
                "stated within capacity); sequential path of the checker's retry loop; correspondence by "
                "differential runs.",
        "technique": "Coq proof (invariant by induction over the request list, projection lemma) + correspondence by vm_compute",
    },
    "C05": {
        "text": "Theorems (Props/C05.v): isolation — on the World model, for every rule set and every history of "
                "builds/exits/clock advances, a build with batch n while k entries are in flight is admitted iff "
                "k + n <= T for every rule, a rejection is an Isolation block naming a rule whose bound is "
                "exceeded and carrying k, and (batch >= 1) in-flight never exceeds any threshold. Hotspot "
                "concurrency — on the hotspot model, for every concurrency rule (any threshold and overrides, 0 included) and "
                "every history (positional/keyed/negative-index/missing parameters), a build with value v is "
                "admitted iff (open entries with v) + 1 <= T_v (override replaces T for that value only), a "
                "rejection names the rule, and open entries per value never exceed T_v. Both predicates are "
                "evaluated on implementation traces.",
        "design_ref": "DESIGN.md §6 C05",
        "note": "Trusted: as C01/C06. The hotspot entry counts as one regardless of batch (as the code and "
                "upstream Sentinel do); a threshold or override of 0 closes the value "
                "(the first-sight pass was repaired by 9c8ac06).",
        "technique": "Coq proof (world/ghost invariant; counter = number of open entries per value) + correspondence by vm_compute",
    },
    "C07": {
        "text": "Theorems (Props/C07.v): a reference pacer (state = scheduled time of the last admission) for "
                "which, for all arrival times, costs and queue limits, consecutive admissions are at least the "
                "later one's cost apart, an admitted request waits 0 or exactly until previous+cost and then "
                "within the queue limit, and a request is rejected iff it would have to wait longer (rejection "
                "leaves the schedule unchanged); and refinement theorems: the model of the flow "
                "ThrottlingChecker + flow slot (nanosecond clock, float cost computed with Flocq binary64) and "
                "the model of the hotspot ThrottlingChecker + hotspot slot (millisecond clock, per value, strict "
                "limit) answer every history exactly as the pacer prescribes AND the clock when build returns "
                "equals the scheduled time (the caller was held). Both models are compared bit-for-bit with the "
                "crate on the virtual clock and the predicates are evaluated on implementation traces.",
        "design_ref": "DESIGN.md §6 C07, Appendix A.4",
        "note": "Trusted: Coq kernel + VM; stdlib classical axioms via Flocq for the flow theorem; the virtual "
                "clock hook replaces thread::sleep (real sleep accuracy is OS behaviour, outside the model); "
                "hotspot cost round(batch*D/q) modelled as exact integer rounding (trusted, exercised); "
                "i64 overflow of last+interval is an explicit panic outcome excluded by hypothesis.",
        "technique": "Coq proof (reference pacer laws + refinement by induction over the history) + bit-exact correspondence by vm_compute",
    },
    "C03": {
        "text": "Theorem C03_refines_state_machine (Props/C03.v): for every list of breaker rules (three strategies, "
                "any min_request_amount / threshold / window geometry / retry timeout), every start time and every "
                "history of entries (some rejected by other rules), completions of any in-flight entry and clock "
                "advances, the observable trace of the model (admissions, block type, listener transitions in "
                "order with previous state, state and retry time of every breaker after every command) is exactly "
                "that of the abstract Closed/Open/Half-Open machines of Spec/C03Spec.v, which keep only the "
                "completions since the last clear and count those inside the window directly (no ring). The ring "
                "with clears is proved exact in Proofs/RingClearProofs.v. Model and Spec are both run against the "
                "crate: model bit-for-bit (float ratio test via Flocq), Spec on the implementation's trace.",
        "design_ref": "DESIGN.md §6 C03, Appendix A.3",
        "note": "Trusted: Coq kernel + VM; stdlib classical axioms via Flocq; hand-written model validated by "
                "differential runs (listener log, breaker states, retry timestamps); other rule families stand "
                "behind an oracle slot that rejects chosen entries. Sequential semantics (C16 covers concurrency).",
        "technique": "Coq proof (refinement to an abstract state machine; ring-with-clears invariant) + correspondence by vm_compute",
    },
    "C10": {
        "text": "Theorem C10_manager_refines_reference_map (Props/C10.v): for every pool of valid / invalid / "
                "duplicate rules and every sequence of load-all, load-for-resource, append, clear and get calls, the "
                "model of the controller-keeping managers (reuse of equal rules' controllers and reusable "
                "statistics, rebuild with removal from the old list, as-given map for the unchanged test) answers "
                "exactly as a controller-free reference map prescribes: return values, reported and enforced rules "
                "per resource as sets under rule equality. The model is compared with the flow, hotspot, "
                "circuit-breaker and isolation managers of the crate, and the reference map is evaluated on the "
                "implementation's own answers.",
        "design_ref": "DESIGN.md §6 C10, Appendix A.5",
        "note": "Trusted: Coq kernel + VM (axiom-free); rules abstracted to (id, resource, equality class, validity, "
                "statistic class); rule sets are sets under rule equality (consistent Hash since fix 79596dd), every return value asserted; the system "
                "manager is exercised as a fifth family (load-all, append, clear, get); admission decisions are covered by the "
                "family properties, 'enforced' is observed as the controllers consulted for entries.",
        "technique": "Coq proof (refinement to a reference map, invariant over operation sequences) + correspondence by vm_compute",
    },
    "C17": {
        "text": "Theorems (Props/C17.v), for ALL four-tuples: a configuration accepted by validation builds a "
                "statistics node without panicking, with exactly the configured geometry, satisfying the premise "
                "(geom_ok) of the window and accounting theorems; validation rejects exactly the unservable "
                "geometries; the store is one cell for the whole process. The correspondence run offers a grid of "
                "configurations (entity and YAML) to one harness process each and compares acceptance, the values "
                "read on the initialising and on another thread, and the geometry of nodes created on both threads; three modes "
                "(check + install, the crate's init entry, the public init_with_config after an earlier one), metric log on/off, "
                "and the values still in effect after a rejected configuration.",
        "design_ref": "DESIGN.md §6 C17",
        "note": "Trusted: Coq kernel + VM; the thread-independence theorem is about the model's single cell and is "
                "tied to the code by the two-thread observation only; init_core_components' background tasks are "
                "not started.",
        "technique": "Coq proof (arithmetic characterisation of the reuse check) + per-process correspondence by vm_compute",
    },
    "C20": {
        "text": "Theorems (Props/C20.v) over the model of the Tower middleware's call path: for every isolation "
                "threshold, with/without fallback and every sequence of inner outcomes (ready/pending x Ok/Err, some "
                "futures dropped), admitted iff Sentinel admits, inner service called once iff admitted, rejected "
                "requests get the fallback or an error, and the in-flight count returns to its previous value after "
                "every completed call — response or error; from any start, what is in flight at the end is the start plus one per "
                "future dropped before completion (C20_inflight_accounting). Compared with the real SentinelService over a scripted "
                "inner service polled by hand; the same service instance first serves a request for another resource.",
        "design_ref": "DESIGN.md §6 C20",
        "note": "Trusted: Coq kernel + VM (axiom-free); the async state machine generated by rustc and tower's "
                "plumbing are abstracted to the order of effects; a future dropped before completion keeps its "
                "admission (tracked and reported, not asserted); the tonic interceptor is not exercised.",
        "technique": "Coq proof (induction over the request sequence) + correspondence by vm_compute",
    },
    "C11": {
        "text": "Theorems (Props/C11.v): along every sequence of manager operations and identity observations, "
                "whenever a resource is observed again while its prescribed rules (pairwise different under rule "
                "equality) never changed in between — whatever happened to other resources, rule order or ids — its "
                "controllers/breakers and their statistic objects are the very same objects; a rebuild with rules "
                "equal up to order and ids returns a permutation of the same controllers; after any operation the "
                "enforced rules are the prescribed ones (C10), so a changed rule applies at once. Two correspondence "
                "families: (1) object identities (Arc addresses) observed after every operation on the flow, hotspot "
                "and breaker managers, with the C11 predicate evaluated on them; (2) the traffic histories of C01, "
                "C03, C05, C06, C07 run on the implementation WITH equal-rule reloads (fresh ids, reversed order, "
                "load-for-resource / load-all / load-all with an unrelated resource added or removed) inserted at "
                "random points — mid-window, while Open/Half-Open, with queued throttling slots — and compared with "
                "the model and Spec of the same history WITHOUT reloads.",
        "design_ref": "DESIGN.md §6 C11",
        "note": "Trusted: Coq kernel + VM (axiom-free for the identity theorems); 'state lives in the object' links "
                "identity to behaviour and is checked by the reload-insertion runs only; warm-up rules are not in the "
                "reload runs; one rule per resource in the reload runs (controller order after a reload is free).",
        "technique": "Coq proof (permutation lemma for the rebuild, invariant over operation sequences) + reload-insertion differential correspondence by vm_compute",
    },
    "C18": {
        "text": "Metric-line half — theorems (Props/C18.v) over the byte-level model of MetricItem's Display and "
                "from_string: every line produced for an item (any counters within their integer types, any "
                "resource type, timestamp and name bytes) parses back to the same item with only the separator "
                "replaced in the name; any byte string parses to an error or to an item with in-range fields. The "
                "model is compared byte-for-byte with the crate on generated items and mutated lines. Rule-JSON half "
                "— no theorem (serde's derive semantics are library code): rules of all five families are "
                "round-tripped through serde_json on the implementation, every field dropped (default), mistyped "
                "(error) and the document cut at every byte (error, no panic).",
        "design_ref": "DESIGN.md §6 C18",
        "note": "PARTIAL: the proof covers the metric-line codec only; the rule-JSON statements are implementation-"
                "level tests. Trusted: Coq kernel + VM (axiom-free); the time crate's HH:MM:SS formatting and Rust's "
                "integer Display/FromStr are modelled; timestamps below year 10000; non-finite thresholds are "
                "outside the JSON round trip (serde_json writes them as null).",
        "technique": "Coq proof (decimal print/parse round trip, separator-free fields) + byte-exact correspondence by vm_compute; rule JSON: implementation-level round-trip testing",
    },
    "C12": {
        "text": "Theorems (Props/C12.v): the panic / hang points of the code are explicit outcomes of the models and "
                "are shown unreachable — every flow rule gets a working statistic for any interval; no build, exit "
                "or read on resources with flow-reject / isolation rules panics; a resource with any hotspot rules "
                "never hangs in the checker's retry loop; the managers' rebuild is total (refines the reference "
                "map); and validity (mirrored for all five families in Model/Rules.v) implies the premises of the "
                "family theorems. Correspondence: one fresh process per case — a rule from the cross product of "
                "enum fields x boundary / out-of-range numerics (NaN, inf, negative, zero, huge) of all five "
                "families is offered through load-all / load-for-resource / append, entries with no / short / long "
                "/ keyed arguments are built and exited, every manager is then probed on an unrelated resource; "
                "the validity verdict, the loading answer and 'listed' are compared with the model, panics and "
                "failed probes must be zero.",
        "design_ref": "DESIGN.md §6 C12",
        "note": "Trusted: Coq kernel + VM; Flocq IEEE comparison for the threshold tests; no-panic for throttling, "
                "warm-up and the circuit-breaker slot is covered by the cross-product runs and by the totality of "
                "their models (C03, C07) rather than by a separate theorem; i64 overflow in flow throttling is an "
                "explicit outcome excluded by hypothesis in C07 (unreachable for batch <= threshold in the sane range, "
                "exercised not proved).",
        "technique": "Coq proof (unreachability of modelled panic outcomes, validity premises) + per-process cross-product correspondence by vm_compute",
    },
    "C09": {
        "text": "Theorem C09_decision_table (Props/C09.v): for every servable configuration, every list of system "
                "rules (5 metric types x 2 strategies, any threshold), any injected load/CPU readings and every "
                "history of inbound and outbound entries, exits and clock advances, an inbound entry is rejected "
                "exactly when some rule trips on readings computed from the outcomes so far (QPS / concurrency / "
                "avg RT at or above the threshold; load / CPU strictly above and, under BBR, only beyond the "
                "capacity estimate), the block names the first tripping rule and carries the observed value, and "
                "outbound entries are untouched. The readings are proved equal to direct computations from the "
                "event history (C02 sums and minimum, plus the new max-single-bucket theorem).",
        "design_ref": "DESIGN.md §6 C09",
        "note": "Trusted: Coq kernel + VM; stdlib classical axioms via Flocq; load / CPU injected through the hook; "
                "one process per case; float arithmetic of the readings mirrored with Flocq and compared bit-for-bit "
                "(value carried by the block).",
        "technique": "Coq proof (refinement to a decision table over history-derived readings) + per-process correspondence by vm_compute",
    },
    "C15": {
        "text": "Theorems C15_lock_order_no_deadlock / C15_managers_no_deadlock (Props/C15.v): any number of threads, each "
                "running any program of lock acquisitions and releases that respects a rank order and releases what it takes, "
                "reaches no deadlock in any interleaving; the acquisition contexts the managers are known to have all respect "
                "the order lock_rank (C15_known_contexts_ordered), and an inverted order does deadlock "
                "(C15_inverted_order_deadlocks). The tie: on every run the lock profile of each manager call and entry "
                "(lock about to be taken, locks held) is observed on the implementation and must lie in the model's context "
                "table; concurrent calls are run under forced interleavings of the lock scheduling points with a deadlock / "
                "panic / poisoning verdict, including a tripped breaker whose rejected probe entry is parked inside its exit hook "
                "while another thread replaces the rule (the scenario of fix 8f67545).",
        "design_ref": "DESIGN.md §6 C15",
        "note": "Partial: deadlock freedom is a theorem for the sixteen static locks of the rule managers and the node store "
                "plus the breakers' state mutexes as one lock (reader/writer locks treated as exclusive); absence of panics under concurrency is checked on the implementation under "
                "forced schedules, not proved for all interleavings. Trusted: Coq kernel + VM, the harness scheduler with "
                "time-out based blocked-thread detection, the placement of the scheduling points, try_lock as reader of held locks.",
        "technique": "Coq proof (lock-order theorem over all interleavings) + observed lock profiles checked against the model's context table + forced-schedule runs of the real managers",
    },
    "C16": {
        "text": "Theorem C16_atomic_transitions_every_schedule (Props/C16.v) over a micro-step model of try_pass / "
                "on_request_complete / the four guarded transitions, with threads running from one scheduling point of the "
                "breaker to the next: for every rule, sequential prelude, thread count, program and schedule (incl. clock "
                "advances) the common log satisfies: listeners see a valid path of the state machine, each transition once; a "
                "request is admitted only while Closed or as the single probe of the Open to Half-Open transition it performed "
                "itself; that transition never happens before the retry deadline in force. C16_listeners_in_step: the state "
                "told to listeners is the breaker's state. C16_all_threads_finish. C16_unchecked_deadline_refuted: without the "
                "deadline re-check under the lock (the code before the fix) a schedule admits a second probe before the new deadline. "
                "Going back from Half-Open to Open with the old deadline is allowed only to a thread that took a probe and has not "
                "reported yet (pending set in the Spec). A free-running family (4-8 real threads, no forced schedule) checks the "
                "listener log for a valid, once-only path.",
        "design_ref": "DESIGN.md §6 C16",
        "note": "Trusted: Coq kernel + VM; stdlib classical axioms via Flocq (threshold ratios); the cooperative scheduler of the "
                "harness and the placement of the scheduling points (before every state read through current_state() and before "
                "every from_ function); the mutex-protected compare-and-set is one atomic step of the model; the model is compared "
                "with real threads under forced schedules: whole point trace, listener events with thread / clock / deadline, "
                "build results and exits.",
        "technique": "Coq proof (segment-level invariant over all schedules of a micro-step model) + forced-schedule correspondence with real threads by vm_compute",
    },
    "C14": {
        "text": "Theorem C14_accounting_every_schedule (Props/C14.v) over a micro-step model of node lookup / insert-if-absent, "
                "concurrency inc/dec, the bucket lookup of the leap array with its two-store reset, and the counter adds, with "
                "threads running from one scheduling point of the library to the next: for every thread count, program of builds "
                "(any batch, inbound or not) and exits, start condition (brand-new resource / used 60 s earlier / used in the "
                "current bucket) and every schedule with any clock advances: all threads finish, every entry holds the one node the "
                "map holds, in-flight = built - exited on the resource node and the inbound node, pass / complete / rt totals never "
                "exceed what was recorded and equal it when no bucket roll-over is involved. C14_one_node; C14_all_threads_finish; "
                "C14_check_then_insert_refuted (the code before the fix puts two first-touch threads on two nodes); "
                "C14_rollover_race_loses (a roll-over race really loses events, so exactness cannot be extended to it). On traces "
                "additionally: a per-window bound (a reading never exceeds what returned operations recorded inside its window), "
                "ring-lap cases, free-running cases and a first-touch family (simultaneous first touches of brand-new resources).",
        "design_ref": "DESIGN.md §6 C14",
        "note": "Trusted: Coq kernel + VM (closed under the global context); the cooperative scheduler of the harness and the placement of the "
                "scheduling points (node-map miss, bucket lookup loop, inside reset_bucket, counter add, concurrency inc/dec); "
                "preemption inside a micro-step (e.g. between the stamp test and the stamp store of one bucket lookup) and "
                "memory orderings weaker than SeqCst are not modelled; the model is compared with real threads under forced "
                "schedules: whole point trace, node identity, every round trip, final totals.",
        "technique": "Coq proof (invariants over all schedules of a micro-step model) + forced-schedule correspondence with real threads by vm_compute",
    },
    "C08": {
        "text": "Theorems in Props/C08.v over a binary64-exact model of WarmUpCalculator (Flocq): stored tokens never exceed the "
                "maximum for every rule and history; the warm-up range is never empty; refilling never overflows; below the "
                "warning line the allowance is exactly the threshold; while the previous interval passed at least floor(q/c) a new "
                "second only drains; a long enough idle period refills to the maximum (cold again); and, with all roundings, the "
                "allowance is antitone in the stored tokens (C08_allowance_antitone_in_tokens) and, for 1 <= q <= 2^30 and cold "
                "factor / period up to 2^20, always lies between q/c*(1-2^-40) and q*(1+2^-40) (C08_allowance_between_cold_and_full); hence, "
                "after every history, an entry is admitted only when the window's pass count plus its batch is at most q*(1+2^-40) "
                "(C08_admitted_within_threshold) and rejected only when it exceeds q/c*(1-2^-40) (C08_blocked_only_above_cold_rate); "
                "above the warning line a saturated second never lowers the allowance (C08_saturated_second_never_lowers_allowance). "
                "The trajectory clauses (monotone ramp to q within 2p+2 s, cold after 2p s idle) are an executable predicate "
                "evaluated on every generated trace of the implementation (Spec/C08Spec.v).",
        "design_ref": "DESIGN.md §6 C08",
        "note": "Partial: the bounds on the allowance and on what is admitted / rejected per window are theorems; the monotone ramp, reaching q within "
                "2p+2 s and cooling after 2p s idle are checked on traces, not proved for all histories (their token-level ingredients are theorems); two degenerate parameter regions are recorded as known findings (threshold / cold factor below one "
                "request; period * threshold beyond u64). Trusted: Coq kernel + VM; stdlib classical axioms via Flocq; binary64 "
                "arithmetic as formalised by Flocq equals the CPU's (every allowed threshold is compared bit-for-bit).",
        "technique": "Coq proof (token-bucket invariants; float monotonicity via Flocq) + bit-exact correspondence and trace predicate by vm_compute",
    },
    "C19": {
        "text": "Theorems in Props/C19.v over a byte-level model of the metric log writer, file listing, searcher and reader: "
                "for every history of writes with any timestamps and limits, every file left in the directory is the image of the "
                "items written to it and every index entry (second, offset) points at the first line of that second in the same "
                "file, the seconds increasing (C19_index_points_at_seconds); the number of retained files never exceeds the limit "
                "(C19_retention); a log cut at any byte reads back as the complete lines before the cut plus at most one partial "
                "line (C19_torn_tail); every complete line parses back to the item written (C19_lines_parse_back); on every "
                "directory whose files are consecutive segments of one time-ordered sequence with exact indexes the search by "
                "time returns exactly the items of the interval, in order (C19_find_by_time_exact); every write history produces "
                "such a directory (C19_written_directory_is_good), hence C19_search_after_writes; the line-limited search returns a "
                "prefix in write order that is not cut short (C19_find_max_lines_prefix); with the last file torn at any byte of "
                "its log and its index (a complete index entry whose first line is torn included) both searches return what the completely written part prescribes plus at most one item "
                "read from the torn line (C19_search_by_time_after_crash, C19_search_max_lines_after_crash); after any history, a crash "
                "at any byte of what one more write issues leaves such a torn directory, losing nothing written earlier and keeping "
                "exactly the new lines issued completely (C19_crash_point_is_torn, with the two search corollaries). Search results "
                "(by time range and resource; from a time with a line limit), across roll-overs by size and date and after a "
                "crash cut, are compared with the model on every run and judged by an executable predicate against the "
                "directory dump (Spec/C19Spec.v).",
        "design_ref": "DESIGN.md §6 C19",
        "note": "Partial: a crash inside a roll-over (a write that creates or removes files) is neither proved nor emulated; each search uses a fresh searcher (the cached "
                "index position is not exercised); a crash is emulated by truncating the files the last write appended to. "
                "Trusted: Coq kernel + VM (closed under the global context); the harness's own directory listing and index "
                "decoding; std::fs semantics after flush().",
        "technique": "Coq proof (writer invariants over all histories, torn-tail lemma) + byte-exact correspondence of directory dumps and search results by vm_compute",
    },
}

REASON_TODO = "not yet covered by the Coq development in this revision (planned, see DESIGN.md §6); no check is claimed"


def main():
    props = [json.loads(l) for l in open(os.path.join(VERIF, "properties.jsonl"))]
    checks = []
    na = []
    for p in props:
        pid = p["id"]
        if pid in CLAIMED:
            c = CLAIMED[pid]
            checks.append({
                "property_id": pid,
                "quick_cmd": "./check %s --tier quick" % pid,
                "thorough_cmd": "./check %s --tier thorough" % pid,
                "evidence_file": "/verif/evidence/%s.json" % pid,
                "replay_cmd_template": "./check %s --replay {path}" % pid,
                "engine": "coq-model-correspondence",
                "level_claimed": {"category": "proof", "text": c["text"], "design_ref": c["design_ref"]},
                "level_note": c["note"],
                "technique": c["technique"],
            })
        else:
            na.append({"property_id": pid, "reason": NA.get(pid, REASON_TODO)})
    m = {
        "version": 1,
        "setup_cmd": "./setup.sh",
        "hooks": {
            "guard": "flea1lt_sentinel_rust_verif",
            "enable": "RUSTFLAGS='--cfg flea1lt_sentinel_rust_verif' (set in /verif/harness/.cargo/config.toml); "
                      "the harness crate depends on /repo/sentinel-core by path",
            "baseline_off_cmd": "cd /repo && cargo test --workspace --no-fail-fast --offline",
            "source_commits": HOOK_COMMITS,
            "add_only": True,
        },
        "engines": [{
            "name": "coq-model-correspondence",
            "path": "/verif/check",
            "serves_properties": sorted(CLAIMED),
            "kind_free_text": "Coq 8.16 theorems over a hand-written executable model + differential "
                              "correspondence check (Rust harness vs model, compared by vm_compute)",
        }],
        "checks": checks,
        "not_applicable": na,
        "notes": "Every check rebuilds the Coq development (incremental make) and the harness from /repo's "
                 "working tree, then compares model, Spec and implementation inside Coq. known_findings.txt "
                 "lists recorded findings and fixed defects.",
    }
    with open(os.path.join(VERIF, "MANIFEST.json"), "w") as f:
        json.dump(m, f, indent=1)


NA = {}
HOOK_COMMITS = ["28ce0b4", "ef616a0", "1b90b9f", "34a6ecc", "960e001", "6201ed7", "7bc2941", "7883235", "f5572d6", "035b69f", "6eb707d"]

if __name__ == "__main__":
    main()
