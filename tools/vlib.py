"""Driver library for the /verif checks.

A check of property Cxx does, in order:
  1. build the Coq development (incremental `make`), re-check the axiom footprint of every
     theorem in Props/Cxx.v with `Print Assumptions`, and grep the development for
     Admitted/Axiom/... ;
  2. rebuild the Rust harness from /repo's current working tree with the hook cfg on;
  3. generate cases from VERIF_SEED, run them on the implementation (harness), write them
     together with the implementation's observations as Coq terms, and let Coq's VM decide
     (a) model == implementation and (b) the property's Spec predicate on the
     implementation's own trace;
  4. print the verdict, write the replay file on failure and the evidence file always.
"""
import concurrent.futures
import hashlib
import json
import os
import random
import re
import subprocess
import sys
import time

VERIF = os.path.dirname(os.path.dirname(os.path.abspath(__file__)))
COQ = os.path.join(VERIF, "coq")
BUILD = os.path.join(VERIF, "build")
HARNESS = os.path.join(VERIF, "harness")
HARNESS_BIN = os.path.join(BUILD, "harness-target", "debug", "vharness")
REPO = "/repo"
GUARD = "flea1lt_sentinel_rust_verif"

ALLOWED_AXIOMS = {
    # standard-library axioms that Flocq (classical reals) depends on
    "ClassicalDedekindReals.sig_not_dec",
    "ClassicalDedekindReals.sig_forall_dec",
    "FunctionalExtensionality.functional_extensionality_dep",
    "Classical_Prop.classic",
}

FORBIDDEN = re.compile(
    r"\b(Admitted|admit|Axiom|Axioms|Parameter|Parameters|Conjecture|Abort All|"
    r"Unset Guard Checking|Unset Positivity Checking|Unset Universe Checking|"
    r"bypass_check|type-in-type|impredicative-set|Admit Obligations)\b"
)

TRUSTED_BASE_COMMON = [
    "Coq 8.16.1 kernel and its bytecode VM (vm_compute); no native_compute",
    "axioms: none declared here; Flocq-dependent theorems rely on the stdlib axioms "
    "Classical_Prop.classic, ClassicalDedekindReals.sig_not_dec, "
    "ClassicalDedekindReals.sig_forall_dec, FunctionalExtensionality.functional_extensionality_dep "
    "(per-theorem list under coverage.axioms)",
    "hand-written Gallina model of the Rust code (coq/Model/*.v); tied to /repo by the "
    "correspondence run of this check (differential testing: finite number of cases)",
    "correspondence machinery: tools/*.py (generators, Coq term rendering), harness/ (Rust), "
    "hooks in /repo under cfg flea1lt_sentinel_rust_verif (virtual clock, observation wrappers)",
    "rustc/LLVM semantics of the compiled crate; IEEE-754 binary64 as formalised by Flocq",
]


def sh(cmd, timeout, cwd=None, env=None):
    """run a command under a timeout; returns (rc, output)"""
    e = dict(os.environ)
    e.setdefault("CARGO_NET_OFFLINE", "true")
    if env:
        e.update(env)
    try:
        p = subprocess.run(cmd, cwd=cwd, env=e, stdout=subprocess.PIPE, stderr=subprocess.STDOUT,
                           timeout=timeout, text=True, errors="replace")
        return p.returncode, p.stdout
    except subprocess.TimeoutExpired as ex:
        out = ex.stdout or ""
        if isinstance(out, bytes):
            out = out.decode(errors="replace")
        return 124, out + "\n[timeout after %ss]" % timeout


# ---------------------------------------------------------------- Coq side

def coq_make(targets=None, timeout=1500):
    """(re)generate the Makefile and build; returns (ok, log)"""
    os.makedirs(BUILD, exist_ok=True)
    if not os.path.exists(os.path.join(COQ, "Makefile")) or \
            os.path.getmtime(os.path.join(COQ, "Makefile")) < os.path.getmtime(os.path.join(COQ, "_CoqProject")):
        rc, out = sh(["coq_makefile", "-f", "_CoqProject", "-o", "Makefile"], 120, cwd=COQ)
        if rc != 0:
            return False, out
    cmd = ["make", "-j16"] + (targets or [])
    rc, out = sh(cmd, timeout, cwd=COQ)
    return rc == 0, out


def strip_comments(txt):
    """remove (possibly nested) Coq comments, keeping line structure"""
    out = []
    depth = 0
    i = 0
    n = len(txt)
    in_str = False
    while i < n:
        ch = txt[i]
        if depth == 0 and ch == '"':
            in_str = not in_str
            out.append(ch)
            i += 1
            continue
        if not in_str and txt.startswith("(*", i):
            depth += 1
            i += 2
            continue
        if not in_str and depth > 0 and txt.startswith("*)", i):
            depth -= 1
            i += 2
            continue
        if depth > 0:
            if ch == "\n":
                out.append(ch)
        else:
            out.append(ch)
        i += 1
    return "".join(out)


def grep_forbidden():
    """list of 'file:line: text' for forbidden vernacular in the development"""
    hits = []
    for root, _, files in os.walk(COQ):
        for f in files:
            if not f.endswith(".v"):
                continue
            path = os.path.join(root, f)
            if "/Generated/" in path:
                continue
            txt = open(path, errors="replace").read()
            txt = strip_comments(txt)
            for i, line in enumerate(txt.split("\n"), 1):
                if FORBIDDEN.search(line):
                    hits.append("%s:%d: %s" % (os.path.relpath(path, VERIF), i, line.strip()))
    return hits


def theorems_of(props_file):
    txt = open(os.path.join(COQ, props_file)).read()
    return re.findall(r"^\s*Theorem\s+([A-Za-z0-9_']+)", txt, flags=re.M)


def coqchk(props_module, timeout=1500):
    """re-check the compiled Props module and everything it depends on with the independent checker;
    returns (ok, info): info = {"axioms": [...], "type_in_type": str, "unsafe_fix": str, "assumed_positive": str} or a message"""
    rc, out = sh(["coqchk", "-o", "-silent", "-Q", ".", "SV", "SV." + props_module], timeout, cwd=COQ)
    if rc != 0 or "CONTEXT SUMMARY" not in out:
        return False, "coqchk failed (rc=%s):\n%s" % (rc, out[-2000:])
    summ = out[out.index("CONTEXT SUMMARY"):]
    sec = {}
    cur = None
    for line in summ.split("\n"):
        m = re.match(r"\* ([^:]+):\s*(.*)", line)
        if m:
            cur = m.group(1).strip()
            sec[cur] = [m.group(2).strip()] if m.group(2).strip() else []
        elif cur and line.strip():
            sec[cur].append(line.strip())
    axioms = [a for a in sec.get("Axioms", []) if a != "<none>"]
    info = {"axioms": axioms,
            "type_in_type": " ".join(sec.get("Constants/Inductives relying on type-in-type", [])),
            "unsafe_fix": " ".join(sec.get("Constants/Inductives relying on unsafe (co)fixpoints", [])),
            "assumed_positive": " ".join(sec.get("Inductives whose positivity is assumed", []))}
    bad = [a for a in axioms if not any(a.endswith(x) for x in ALLOWED_AXIOMS)]
    clean = all(info[k] == "<none>" for k in ("type_in_type", "unsafe_fix", "assumed_positive"))
    if bad or not clean:
        return False, "coqchk context not clean: %s" % json.dumps(info)
    return True, info


def print_assumptions(prop_id, props_module, names, timeout=300):
    """compile a leaf file that prints the assumptions of every theorem;
    returns dict name -> list of axiom names, or raises RuntimeError"""
    gen = os.path.join(BUILD, "assump")
    os.makedirs(gen, exist_ok=True)
    path = os.path.join(gen, "Assump_%s.v" % prop_id)
    with open(path, "w") as f:
        f.write("From SV Require Import %s.\n" % props_module)
        for n in names:
            f.write('Goal True. idtac "@@THM %s". exact I. Qed.\n' % n)
            f.write("Print Assumptions %s.\n" % n)
    rc, out = sh(["coqc", "-noglob", "-Q", COQ, "SV", path], timeout, cwd=gen)
    if rc != 0:
        raise RuntimeError("Print Assumptions run failed:\n" + out[-2000:])
    res = {}
    cur = None
    for line in out.split("\n"):
        m = re.match(r"@@THM (\S+)", line)
        if m:
            cur = m.group(1)
            res[cur] = []
            continue
        if cur is None:
            continue
        if re.match(r"^([A-Za-z_][A-Za-z0-9_.']*)\s*$", line) and not line.startswith("Closed") and line.strip() != "Axioms":
            # axiom name on its own line, its type on the following lines
            res[cur].append(line.strip())
            continue
        m = re.match(r"^([A-Za-z_][A-Za-z0-9_.']*)\s*:", line)
        if m and not line.startswith(" ") and m.group(1) != "Axioms":
            res[cur].append(m.group(1))
    return res


# ---------------------------------------------------------------- Rust side

def build_harness(timeout=1500):
    lock_src = os.path.join(REPO, "Cargo.lock")
    lock_dst = os.path.join(HARNESS, "Cargo.lock")
    if not os.path.exists(lock_dst) and os.path.exists(lock_src):
        import shutil
        shutil.copy(lock_src, lock_dst)
    rc, out = sh(["cargo", "build", "--offline", "--quiet"], timeout, cwd=HARNESS,
                 env={"CARGO_NET_OFFLINE": "true"})
    return rc == 0, out


def run_harness(name, lines, tag, timeout=900, per_process=False):
    """run the harness on case lines; returns list of observation lists (ints) or None per case"""
    d = os.path.join(BUILD, "cases", tag)
    os.makedirs(d, exist_ok=True)
    if per_process:
        # one process per case (global state such as poisoned locks must not leak)
        hang_count = [0]

        def one(i_line):
            i, line = i_line
            inp = os.path.join(d, "in_%d.txt" % i)
            outp = os.path.join(d, "out_%d.txt" % i)
            open(inp, "w").write(line + "\n")
            if hang_count[0] >= 8:
                return None            # the implementation hangs: do not wait for every remaining case
            rc, out = sh([HARNESS_BIN, name, inp, outp], 20)
            if rc == 124:
                hang_count[0] += 1
            if rc != 0 or not os.path.exists(outp):
                return None
            txt = open(outp).read().strip()
            os.remove(inp)
            os.remove(outp)
            return [int(x) for x in txt.split()] if txt else []
        with concurrent.futures.ThreadPoolExecutor(16) as ex:
            return list(ex.map(one, enumerate(lines)))
    nsh = min(16, max(1, len(lines) // 50))
    shards = [lines[i::nsh] for i in range(nsh)]

    def run_shard(k):
        inp = os.path.join(d, "in_%d.txt" % k)
        outp = os.path.join(d, "out_%d.txt" % k)
        open(inp, "w").write("\n".join(shards[k]) + "\n")
        rc, out = sh([HARNESS_BIN, name, inp, outp], timeout)
        if rc != 0:
            raise RuntimeError("harness failed (rc=%d): %s" % (rc, out[-1000:]))
        res = [[int(x) for x in l.split()] for l in open(outp).read().split("\n") if l.strip() != "" or True]
        res = res[:len(shards[k])]
        if len(res) != len(shards[k]):
            raise RuntimeError("harness produced %d lines for %d cases" % (len(res), len(shards[k])))
        return res
    with concurrent.futures.ThreadPoolExecutor(16) as ex:
        outs = list(ex.map(run_shard, range(nsh)))
    res = [None] * len(lines)
    for k in range(nsh):
        for j, o in enumerate(outs[k]):
            res[k + j * nsh] = o
    return res


# ---------------------------------------------------------------- comparison inside Coq

def zlist(l):
    return "[" + "; ".join(str(x) for x in l) + "]%Z"


def coq_compare(tag, imports, case_type, rendered, fns, shard_size=150, timeout=900):
    """rendered: list of Coq terms of type (case_type * list Z).
    fns: names of boolean functions over that pair.
    returns dict fn -> sorted list of case indices for which fn is false"""
    d = os.path.join(BUILD, "cases", tag)
    os.makedirs(d, exist_ok=True)
    shards = [(i, rendered[i:i + shard_size]) for i in range(0, len(rendered), shard_size)]

    def run_shard(sh_):
        base, items = sh_
        path = os.path.join(d, "cases_%d.v" % base)
        with open(path, "w") as f:
            f.write(imports + "\n")
            f.write("Definition cases : list (%s * list Z) := [\n" % case_type)
            f.write(";\n".join(items))
            f.write("\n].\n")
            for fn in fns:
                f.write('Goal True. idtac "@@FN %s". exact I. Qed.\n' % fn)
                f.write("Eval vm_compute in (bad_ids %s cases 0%%N).\n" % fn)
        rc, out = sh(["coqc", "-noglob", "-Q", COQ, "SV", path], timeout, cwd=d)
        tries = 0
        while rc != 0 and rc != 124 and out.strip() == "" and tries < 2:
            # killed by a signal without a word (seen once under heavy machine load): not a statement about the
            # cases; a Coq error always comes with a message and is never retried
            tries += 1
            time.sleep(2)
            rc, out = sh(["coqc", "-noglob", "-Q", COQ, "SV", path], timeout, cwd=d)
        if rc != 0:
            raise RuntimeError("coqc failed (rc=%s) on %s:\n%s" % (rc, path, out[-3000:]))
        res = {}
        parts = re.split(r"@@FN (\S+)", out)
        # parts: [pre, fn1, text1, fn2, text2...]
        for j in range(1, len(parts), 2):
            fn = parts[j]
            text = parts[j + 1]
            m = re.search(r"=\s*(\[.*?\])\s*:\s*list N", text, flags=re.S)
            if not m:
                raise RuntimeError("cannot parse coq output for %s: %s" % (fn, text[:500]))
            res[fn] = [base + int(x) for x in re.findall(r"\d+", m.group(1))]
        for fn in fns:
            if fn not in res:
                raise RuntimeError("no result for %s in %s" % (fn, path))
        try:
            os.remove(path)
            for ext in (".vo", ".vok", ".vos", ".glob"):
                p2 = path[:-2] + ext
                if os.path.exists(p2):
                    os.remove(p2)
        except OSError:
            pass
        return res
    out = {fn: [] for fn in fns}
    with concurrent.futures.ThreadPoolExecutor(16) as ex:
        for r in ex.map(run_shard, shards):
            for fn in fns:
                out[fn].extend(r[fn])
    for fn in fns:
        out[fn].sort()
    return out


# ---------------------------------------------------------------- known findings

def load_known(prop_id):
    """known_findings.txt lines:
         known: property=C10 class=<name> <what fails>
         fixed: property=C10 <commit> <what failed>
    returns dict class -> description for 'known' lines of this property"""
    path = os.path.join(VERIF, "known_findings.txt")
    res = {}
    if not os.path.exists(path):
        return res
    for line in open(path):
        line = line.strip()
        m = re.match(r"known:\s+property=(\S+)\s+class=(\S+)\s+(.*)", line)
        if m and m.group(1) == prop_id:
            res[m.group(2)] = m.group(3)
    return res


# ---------------------------------------------------------------- evidence / verdict

def write_evidence(prop_id, tier, seed, coverage, wall, violations, assumptions=None):
    os.makedirs(os.path.join(VERIF, "evidence"), exist_ok=True)
    ev = {
        "property_id": prop_id,
        "tier": tier,
        "seed": seed,
        "level": "proof",
        "coverage": coverage,
        "assumptions": assumptions or [],
        "wall_s": round(wall, 2),
        "violations": violations,
    }
    with open(os.path.join(VERIF, "evidence", "%s.json" % prop_id), "w") as f:
        json.dump(ev, f, indent=1, sort_keys=True)


def write_replay(prop_id, seed, kind, payload):
    os.makedirs(os.path.join(VERIF, "replays"), exist_ok=True)
    path = os.path.join(VERIF, "replays", "%s-%s-%s.json" % (prop_id, kind, seed))
    with open(path, "w") as f:
        json.dump(payload, f, indent=1)
    return path


class Rng(random.Random):
    def pick(self, seq):
        return seq[self.randrange(len(seq))]

    def chance(self, p):
        return self.random() < p
