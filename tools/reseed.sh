#!/bin/bash
# usage: tools/reseed.sh Cxx [Cyy ...]  -- re-run every stored seed of the given properties against the current checks
# (needs exclusive use of /repo; prints one line per seed)
cd /verif
for p in "$@"; do
  for d in seeded/$p/*/; do
    m=$(basename $d)
    [ -f $d/patch.diff ] || continue
    if ! git -C /repo apply --check $(pwd)/$d/patch.diff 2>/dev/null; then echo "$p $m: patch does not apply at HEAD"; continue; fi
    out=$(tools/try_seed.sh $(pwd)/$d/patch.diff $p 2>&1 | grep -E "^VIOLATION|^OK property|check exit code" | tr '\n' ' ' | cut -c1-200)
    echo "$p $m: $out"
  done
done
