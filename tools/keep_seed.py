#!/usr/bin/env python3
"""keep_seed.py <seed dir> <Cxx> <name> <detected-by text>: store a confirmed seeded change under /verif/seeded/"""
import json, os, shutil, sys
sd, prop, name, detected = sys.argv[1:5]
dst = os.path.join("/verif/seeded", prop, name)
os.makedirs(dst, exist_ok=True)
shutil.copy(os.path.join(sd, "patch.diff"), dst)
shutil.copy(os.path.join(sd, "demo.diff"), dst)
meta = json.load(open(os.path.join(sd, "meta.json")))
ver = open(os.path.join(sd, "verify.txt")).read()
out = {"property": prop, "summary": meta.get("summary"), "needs": meta.get("needs"),
       "author": "independent sub-agent given only the property text and a scratch worktree",
       "confirmed_by_me": {"script": "tools/verify_seed.sh (patch only: existing suite; patch+demo: demo fails; demo only: demo passes)",
                           "result": ver.strip().split("\n")},
       "check_result": detected}
json.dump(out, open(os.path.join(dst, "meta.json"), "w"), indent=1)
