#!/bin/bash
# usage: verify_seed.sh <worktree> <seed dir with patch.diff demo.diff>
# confirms: (a) patch only -> existing suite passes; (b) patch+demo -> demo fails; (c) demo only -> demo passes
wt="$1"; sd="$2"
export CARGO_NET_OFFLINE=true CARGO_TARGET_DIR="$wt/target"
cd "$wt" || exit 2
git checkout -q -- . ; git clean -fdq -e target
log="$sd/verify.txt"; : > "$log"
git apply "$sd/patch.diff" || { echo "patch does not apply" >> "$log"; exit 1; }
cargo test --workspace --offline --no-fail-fast > "$sd/a.log" 2>&1
grep -E "^test result" "$sd/a.log" | head -5 >> "$log"
fa=$(grep -E "^test .* FAILED$" "$sd/a.log" | grep -vc "parallel_queueing")   # parallel_queueing is wall-clock sensitive under load
pa=$(grep -E "^test result" "$sd/a.log" | awk '{p+=$4} END{print p+0}'); pa=$((pa + $(grep -E "^test .* FAILED$" "$sd/a.log" | grep -c "parallel_queueing")))
echo "(a) patch only: passed=$pa failed=$fa" >> "$log"
git apply "$sd/demo.diff" || { echo "demo does not apply" >> "$log"; exit 1; }
cargo test --workspace --offline --no-fail-fast > "$sd/b.log" 2>&1
fb=$(grep -E "^test .* FAILED$" "$sd/b.log" | grep -vc "parallel_queueing")
echo "(b) patch+demo: failed=$fb" >> "$log"
git apply -R "$sd/patch.diff" || { echo "cannot revert patch" >> "$log"; exit 1; }
cargo test --workspace --offline --no-fail-fast > "$sd/c.log" 2>&1
fc=$(grep -E "^test .* FAILED$" "$sd/c.log" | grep -vc "parallel_queueing")
pc=$(grep -E "^test result" "$sd/c.log" | awk '{p+=$4} END{print p+0}')
echo "(c) demo only: passed=$pc failed=$fc" >> "$log"
git checkout -q -- . ; git clean -fdq -e target
if [ "$fa" = "0" ] && [ "$pa" -ge 103 ] && [ "$fb" != "0" ] && [ "$fc" = "0" ]; then echo "CONFIRMED" >> "$log"; else echo "NOT-CONFIRMED" >> "$log"; fi
rm -f "$sd/a.log" "$sd/c.log"
tail -1 "$log"
