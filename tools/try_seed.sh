#!/bin/bash
# usage: tools/try_seed.sh <patch.diff> <Cxx> [tier]   -- apply a seeded change to /repo, run the check, undo
set -u
patch="$1"; prop="$2"; tier="${3:-quick}"
cd /repo || exit 2
if ! git diff --quiet; then echo "repo dirty"; exit 2; fi
git apply "$patch" || { echo "patch does not apply (see applies_at in its meta.json)"; git checkout HEAD -- . ; git reset -q; exit 2; }
cd /verif
cp -f evidence/$prop.json /tmp/evidence_$prop.bak 2>/dev/null
./check "$prop" --tier "$tier"; rc=$?
cp -f evidence/$prop.json /tmp/evidence_seeded_$prop.json 2>/dev/null
cp -f /tmp/evidence_$prop.bak evidence/$prop.json 2>/dev/null
git -C /repo checkout -- . 
git -C /repo clean -fdq -e target sentinel-core/tests 2>/dev/null
echo "check exit code: $rc"
