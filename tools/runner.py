"""Generic check flow shared by all properties (see vlib.py for the steps)."""
import json
import os
import sys
import time
import re

import vlib
from vlib import VERIF


class PropBase:
    """A property plugin.  Subclasses set the class attributes and implement gen()."""
    id = "C00"
    harness = "c00"              # harness sub-command
    per_process = False          # one harness process per case
    props_file = "Props/C00.v"   # statements only
    props_module = "Props.C00"
    coq_imports = ""             # header of generated cases files
    case_type = "case"           # Coq type of a case
    agree_fn = "agree"           # model == implementation
    spec_fn = "spec_holds"       # Spec predicate on the implementation's trace
    class_fn = None              # optional: known-finding classifier  (case*obs -> N)
    known_classes = {}           # class number -> class name in known_findings.txt
    counts = {"quick": 300, "thorough": 3000}
    extra_obligations = []       # names of further proof obligations (files) checked by make
    partial_note = ""
    trusted_extra = []

    def gen(self, rng, n, tier):
        """returns list of cases (python objects)"""
        raise NotImplementedError

    def line(self, case):
        raise NotImplementedError

    def coq(self, case):
        raise NotImplementedError

    def nontrivial(self, case, obs):
        return True

    def key(self, case):
        return self.line(case)

    def describe(self, case, obs):
        return {"case": self.line(case), "observed": obs}

    def corpus(self):
        """cases kept from earlier failures, run first"""
        d = os.path.join(VERIF, "corpus", self.id)
        res = []
        if os.path.isdir(d):
            for f in sorted(os.listdir(d)):
                if f.endswith(".json"):
                    res.append(json.load(open(os.path.join(d, f)))["case_obj"])
        return res

    def shrink_candidates(self, case):
        """smaller variants of a failing case (for shrinking); default none"""
        return []

    def stats(self, cases, obs):
        return {}


def fail_tie(prop, tier, seed, t0, what, detail, coverage_base):
    """the proof / correspondence tie no longer checks and no failing input was found"""
    payload = {"property": prop.id, "kind": "tie-broken", "what": what, "detail": detail[-6000:]}
    path = vlib.write_replay(prop.id, seed, "tie", payload)
    cov = dict(coverage_base)
    cov.setdefault("obligations", 1)
    cov["discharged"] = 0
    cov.setdefault("checker_cmd", "make -C coq && coqc (cases)")
    cov.setdefault("trusted_base", vlib.TRUSTED_BASE_COMMON)
    cov["explanation"] = what
    vlib.write_evidence(prop.id, tier, seed, cov, time.time() - t0, 1)
    print("VIOLATION property=%s replay=%s no-failing-input-found" % (prop.id, path))
    return 1


def evaluate(prop, cases, tag):
    """run cases on the implementation and compare in Coq.
    returns (obs, bad_agree, bad_spec, classes)"""
    lines = [prop.line(c) for c in cases]
    obs = vlib.run_harness(prop.harness, lines, tag, per_process=prop.per_process)
    rendered = []
    for c, o in zip(cases, obs):
        o2 = o if o is not None else [-999]
        rendered.append("(%s, %s)" % (prop.coq(c), vlib.zlist(o2)))
    fns = [prop.agree_fn, prop.spec_fn]
    res = vlib.coq_compare(tag, prop.coq_imports, prop.case_type, rendered, fns)
    return obs, res[prop.agree_fn], res[prop.spec_fn]


def shrink(prop, case, pred, budget=60):
    """greedy shrinking: pred(case) -> True when the case still fails"""
    cur = case
    steps = 0
    improved = True
    while improved and steps < budget:
        improved = False
        for cand in prop.shrink_candidates(cur):
            steps += 1
            if steps > budget:
                break
            try:
                if pred(cand):
                    cur = cand
                    improved = True
                    break
            except Exception:
                continue
    return cur


def run_check(prop, tier, seed):
    t0 = time.time()
    cov = {"checker_cmd": "cd /verif/coq && make -j16 && coqc Assump_%s.v (Print Assumptions) && "
                          "coqc cases_*.v (vm_compute comparison of model, spec and implementation)" % prop.id,
           "trusted_base": vlib.TRUSTED_BASE_COMMON + prop.trusted_extra}
    # ---- 1. proofs
    ok, log = vlib.coq_make()
    if not ok:
        return fail_tie(prop, tier, seed, t0, "Coq development does not build (a theorem or the model no longer checks)", log, cov)
    hits = vlib.grep_forbidden()
    if hits:
        return fail_tie(prop, tier, seed, t0, "forbidden vernacular in the development", "\n".join(hits), cov)
    thms = vlib.theorems_of(prop.props_file)
    try:
        ax = vlib.print_assumptions(prop.id, prop.props_module, thms)
    except RuntimeError as e:
        return fail_tie(prop, tier, seed, t0, "Print Assumptions failed", str(e), cov)
    bad_ax = {t: [a for a in l if a not in vlib.ALLOWED_AXIOMS] for t, l in ax.items()}
    bad_ax = {t: l for t, l in bad_ax.items() if l}
    missing = [t for t in thms if t not in ax]
    if bad_ax or missing:
        return fail_tie(prop, tier, seed, t0, "theorem depends on a non-allow-listed axiom or is missing",
                        json.dumps({"bad": bad_ax, "missing": missing}), cov)
    cov["axioms"] = {t: sorted(l) for t, l in ax.items()}
    cov["theorems"] = thms
    # non-vacuity witnesses (Witness/Wnn.v, compiled with the development): concrete non-degenerate values meeting
    # the premises of every theorem that has premises, and the theorem applied to them
    wf = os.path.join(vlib.COQ, "Witness", "W%s.v" % prop.id[1:])
    if os.path.exists(wf):
        wt = open(wf).read()
        cov["non_vacuity_examples"] = len(re.findall(r"^(?:Example|Goal)\b", wt, flags=re.M))
    n_obl = len(thms) + 2        # + the two correspondence relations (agree, spec on impl trace)
    if tier == "thorough":
        # independent re-check of the compiled theorems and of everything they depend on
        okc, info = vlib.coqchk(prop.props_module)
        if not okc:
            return fail_tie(prop, tier, seed, t0, "coqchk does not accept the compiled development", str(info), cov)
        cov["coqchk"] = info
        cov["checker_cmd"] += " && coqchk -o -silent -Q . SV SV.%s" % prop.props_module
    # ---- 2. harness from the current working tree
    ok, log = vlib.build_harness()
    if not ok:
        return fail_tie(prop, tier, seed, t0, "harness does not build against /repo's working tree "
                        "(hook surface or API changed)", log, cov)
    # ---- 3. cases (a property may be served by several case families = parts)
    parts = prop.parts() if hasattr(prop, "parts") else [prop]
    cases, obs, owner, bad_agree, bad_spec = [], [], [], [], []
    try:
        for k, part in enumerate(parts):
            rng = vlib.Rng(seed * 1000003 + int(prop.id[1:]) + 7919 * k)
            n = part.counts[tier]
            pc = part.corpus() + part.gen(rng, n, tier)
            po, pa, ps = evaluate(part, pc, "%s_%s_%d" % (prop.id, tier, k))
            off = len(cases)
            cases += pc
            obs += po
            owner += [part] * len(pc)
            bad_agree += [off + i for i in pa]
            bad_spec += [off + i for i in ps]
    except RuntimeError as e:
        return fail_tie(prop, tier, seed, t0, "correspondence run failed", str(e), cov)
    keys = set()
    nontriv = 0
    for c, o, part in zip(cases, obs, owner):
        k = (part.harness, part.key(c))
        if k in keys:
            continue
        keys.add(k)
        if o is not None and part.nontrivial(c, o):
            nontriv += 1
    cov["evaluations"] = len(cases)
    cov["distinct_nontrivial"] = nontriv
    cov["rule"] = " || ".join(part.rule for part in parts)
    cov["samples"] = []
    for part in parts:
        idxs = [i for i, pw in enumerate(owner) if pw is part][:2]
        cov["samples"] += [part.describe(cases[i], obs[i]) for i in idxs]
    cov["traces_validated_against_impl"] = len(cases)
    cov["distribution"] = {part.harness + ":" + part.spec_fn: part.stats([c for c, pw in zip(cases, owner) if pw is part],
                                                                  [o for o, pw in zip(obs, owner) if pw is part])
                           for part in parts}
    cov["obligations"] = n_obl
    if prop.partial_note:
        cov["partial"] = prop.partial_note
    # ---- 4. verdict
    known = vlib.load_known(prop.id)
    violations = 0
    rc = 0
    if bad_spec or bad_agree:
        # classify
        spec_set = set(bad_spec)
        first_spec = bad_spec[0] if bad_spec else None
        reported = False
        unknown_spec = []
        known_hits = {}
        for i in bad_spec:
            cls = owner[i].classify(cases[i], obs[i]) if hasattr(owner[i], "classify") else None
            if cls is not None and cls in known:
                known_hits.setdefault(cls, i)
            else:
                unknown_spec.append(i)
        for cls, i in sorted(known_hits.items()):
            print("KNOWN-FINDING: property=%s %s" % (prop.id, known[cls]))
        cov["known_findings_hit"] = sorted(known_hits)
        if unknown_spec:
            i = unknown_spec[0]

            part = owner[i]

            def still_fails(c):
                o, ba, bs = evaluate(part, [c], "%s_shrink" % prop.id)
                return bool(bs)
            small = shrink(part, cases[i], still_fails)
            o_small = vlib.run_harness(part.harness, [part.line(small)], "%s_shrink" % prop.id,
                                       per_process=part.per_process)[0]
            payload = {"property": prop.id, "kind": "spec-violated-on-implementation-trace", "family": part.harness,
                       "seed": seed, "case": part.describe(small, o_small), "case_obj": small,
                       "original_case": part.describe(cases[i], obs[i]),
                       "how_to_replay": "./check %s --replay <this file>" % prop.id,
                       "count": len(unknown_spec)}
            path = vlib.write_replay(prop.id, seed, "spec", payload)
            print("VIOLATION property=%s replay=%s" % (prop.id, path))
            violations = len(unknown_spec)
            rc = 1
            reported = True
        only_agree = [i for i in bad_agree if i not in spec_set]
        # model/implementation disagreement where the spec predicate still holds
        # (or is not constraining): the tie is broken, no failing input known.
        unknown_agree = []
        for i in only_agree:
            cls = owner[i].classify(cases[i], obs[i]) if hasattr(owner[i], "classify") else None
            if not (cls is not None and cls in known):
                unknown_agree.append(i)
        if unknown_agree and not reported:
            i = unknown_agree[0]

            part = owner[i]

            def still_differs(c):
                o, ba, bs = evaluate(part, [c], "%s_shrink" % prop.id)
                return bool(ba)
            small = shrink(part, cases[i], still_differs)
            o_small = vlib.run_harness(part.harness, [part.line(small)], "%s_shrink" % prop.id,
                                       per_process=part.per_process)[0]
            payload = {"property": prop.id, "kind": "model-implementation-disagreement", "family": part.harness,
                       "what": "correspondence %s (Run entry %s) no longer holds: the model and the "
                               "implementation differ on this case; no input falsifying the property's "
                               "Spec predicate was found among %d cases" % (prop.id, part.agree_fn, len(cases)),
                       "seed": seed, "case": part.describe(small, o_small), "case_obj": small,
                       "count": len(unknown_agree)}
            path = vlib.write_replay(prop.id, seed, "corr", payload)
            print("VIOLATION property=%s replay=%s no-failing-input-found" % (prop.id, path))
            violations = len(unknown_agree)
            rc = 1
    cov["disagreements"] = {"model_vs_impl": len(bad_agree), "spec_on_impl_trace": len(bad_spec)}
    cov["discharged"] = n_obl if rc == 0 else n_obl - 1
    vlib.write_evidence(prop.id, tier, seed, cov, time.time() - t0, violations,
                        assumptions=prop.assumptions)
    if rc == 0:
        print("OK property=%s tier=%s cases=%d nontrivial=%d theorems=%d wall=%.1fs" %
              (prop.id, tier, len(cases), nontriv, len(thms), time.time() - t0))
    return rc


def run_replay(prop, path):
    payload = json.load(open(path))
    case = payload.get("case_obj")
    if case is None:
        print("replay file names a broken proof/correspondence, nothing to run: %s" % payload.get("what"))
        return 1
    ok, log = vlib.coq_make()
    if not ok:
        print(log[-2000:])
        return 1
    ok, log = vlib.build_harness()
    if not ok:
        print(log[-2000:])
        return 1
    parts = prop.parts() if hasattr(prop, "parts") else [prop]
    fam = payload.get("family")
    part = next((p for p in parts if p.harness == fam), parts[0])
    obs, ba, bs = evaluate(part, [case], "%s_replay" % prop.id)
    print(json.dumps(part.describe(case, obs[0])))
    print("model==impl: %s ; spec holds on impl trace: %s" % (not ba, not bs))
    return 1 if (ba or bs) else 0
