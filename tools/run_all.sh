#!/bin/bash
# run every claimed check (quick tier) on the current tree; regenerates the evidence files
cd /verif
ids=$(python3 -c "import json;print(' '.join(c['property_id'] for c in json.load(open('MANIFEST.json'))['checks']))")
rc=0
for p in $ids; do ./check $p --tier ${1:-quick} || rc=1; done
python3-vt - <<'PY'
import json,jsonschema,glob
sch=json.load(open('/root/.vp/EVIDENCE.schema.json'))
for f in sorted(glob.glob('/verif/evidence/*.json')):
    d=json.load(open(f)); jsonschema.validate(d,sch)
    c=d['coverage']; assert c['discharged']==c['obligations'], f
jsonschema.validate(json.load(open('/verif/MANIFEST.json')), json.load(open('/root/.vp/MANIFEST.schema.json')))
print('evidence+manifest valid')
PY
exit $rc
