from runner import PropBase

NLOCKS = 17
FAMS = [0, 1, 2, 3, 4]


def gen_pool(rng):
    pool = []
    n = rng.pick([3, 4, 6])
    for i in range(n):
        res = rng.pick([1, 1, 2, 2, 3, 0]) if rng.chance(0.95) else 0
        key = rng.pick([1, 2, 3, 4, 5, 6, 7, 10])
        pool.append((i + 1, res, key))
    return pool


def gen_op(rng, pool, fam=None, entries=True):
    if fam is None:
        fam = rng.pick([0, 0, 1, 1, 2, 2, 3, 4])
    if entries and rng.chance(0.2):
        return ("B", rng.pick([1, 2, 3]))
    ix = lambda: rng.randrange(len(pool))
    some = lambda: [ix() for _ in range(rng.pick([0, 1, 1, 2, 3]))]
    if fam == 4:
        k = rng.pick(["L", "L", "P", "P", "C", "G"])
    else:
        k = rng.pick(["L", "L", "R", "R", "P", "P", "P", "C", "K", "G", "Q"])
    if k == "L":
        return ("L", fam, some())
    if k == "R":
        return ("R", fam, rng.pick([1, 2, 3, 0]) if rng.chance(0.9) else 0, some())
    if k == "P":
        return ("P", fam, ix())
    if k == "C":
        return ("C", fam)
    if k == "K":
        return ("K", fam, rng.pick([1, 2, 3]))
    if k == "G":
        return ("G", fam)
    return ("Q", fam, rng.pick([1, 2, 3]))


def op_toks(o):
    if o[0] == "L":
        return ["L", o[1], len(o[2])] + list(o[2])
    if o[0] == "R":
        return ["R", o[1], o[2], len(o[3])] + list(o[3])
    return list(o)


def gen_profile_sweep(rng, i):
    """one thread, a populated manager, then one call of every kind: the lock profile of each call is observed"""
    j = i // 5                      # the sweep is taken by every fifth case: enumerate (family, kind) in turn
    fam = j % 5
    # pool[4] equals pool[0] (an append that finds the rule present), pool[3] is invalid, pool[6] is new and valid
    pool = [(1, 1, 1), (2, 1, 2), (3, 2, 3), (4, 2, 5), (5, 1, 1), (6, 3, 7), (7, 2, 6)]
    setup = [("L", fam, [0, 1, 2, 5])]
    if fam != 4 and rng.chance(0.5):
        setup.append(("R", fam, 1, [0, 4]))
    kinds = [("G", fam), ("L", fam, [1, 2]), ("P", fam, 4), ("P", fam, 6), ("C", fam), ("B", 1)] if fam == 4 else \
            [("G", fam), ("Q", fam, 1), ("L", fam, [1, 2]), ("R", fam, 1, [0]), ("R", fam, 2, []), ("P", fam, 4),
             ("P", fam, 3), ("P", fam, 6), ("K", fam, 1), ("C", fam), ("B", 1), ("B", 2)]
    k = (j // 5) % len(kinds)
    prog = [kinds[k], kinds[(k + 1) % len(kinds)]]
    return {"pool": pool, "setup": setup, "progs": [prog], "steps": []}


def gen_pair_sweep(rng, i):
    """two calls of one family on one resource; the second runs to its end while the first is parked at its k-th lock"""
    fam = rng.pick([0, 1, 2, 3, 4])
    pool = [(1, 1, 1), (2, 1, 2), (3, 1, 3), (4, 2, 4)]
    setup = [("L", fam, [0, 3])] if rng.chance(0.7) else []
    if fam == 4:
        first = rng.pick([("P", fam, 1), ("P", fam, 2), ("L", fam, [0, 1, 3]), ("L", fam, [1])])
        second = rng.pick([("C", fam), ("P", fam, 2), ("L", fam, [3]), ("L", fam, [1, 2]), ("G", fam), ("B", 1)])
    else:
        first = rng.pick([("P", fam, 1), ("P", fam, 2), ("R", fam, 1, [1, 2]), ("L", fam, [0, 1, 3]), ("R", fam, 1, [])])
        second = rng.pick([("K", fam, 1), ("C", fam), ("R", fam, 1, []), ("P", fam, 2), ("L", fam, [3]), ("G", fam), ("B", 1)])
    k = i % 9
    steps = [0] * k + [1] * 12 + [0] * 12
    return {"pool": pool, "setup": setup, "progs": [[first], [second]], "steps": steps}


def gen_probe_sweep(rng, i):
    """a breaker is tripped and its probe entry rejected by a later slot (the exit hook rolls the breaker back);
    parked at its k-th lock while another thread replaces / removes / reads the breaker's rule"""
    pool = [(1, 1, 11), (2, 1, 1), (3, 1, 11), (4, 2, 11)]
    setup = [("L", 2, [0, 3])]
    if i % 4 == 1:
        # one thread: the lock profile of the whole scenario followed by a rule change
        second = rng.pick([("R", 2, 1, [1]), ("K", 2, 1), ("C", 2)])
        return {"pool": pool, "setup": setup, "progs": [[("E", 1), second]], "steps": []}
    second = rng.pick([("R", 2, 1, [1]), ("R", 2, 1, [1]), ("K", 2, 1), ("C", 2), ("L", 2, [1]), ("P", 2, 2), ("E", 1), ("G", 2)])
    k = (i // 5) % 36
    steps = [0] * k + [1] * 40 + [0] * 40
    return {"pool": pool, "setup": setup, "progs": [[("E", 1)], [second]], "steps": steps}


def gen_case(rng, i):
    if i % 5 == 1:
        return gen_profile_sweep(rng, i)
    if i % 5 == 3:
        return gen_pair_sweep(rng, i)
    if i % 5 == 4:
        return gen_probe_sweep(rng, i)
    pool = gen_pool(rng)
    setup = [gen_op(rng, pool, entries=False) for _ in range(rng.pick([0, 1, 2, 4]))]
    if i % 3 == 0:
        # single thread: the lock profile of each call is observed
        progs = [[gen_op(rng, pool) for _ in range(rng.pick([1, 2, 3]))]]
        steps = []
    else:
        nt = rng.pick([2, 2, 3])
        same_family = rng.chance(0.6)
        fam = rng.pick([0, 1, 2, 3])
        if rng.chance(0.35):
            # a breaker rule of a custom strategy: its generator (registered by the harness) calls back into
            # read-only manager functions while the manager builds the breaker
            k = rng.randrange(len(pool))
            pool[k] = (pool[k][0], pool[k][1] or 1, 12)
            fam = 2
        progs = []
        for t in range(nt):
            k = rng.pick([1, 2, 2, 3])
            progs.append([gen_op(rng, pool, fam if same_family and rng.chance(0.85) else None) for _ in range(k)])
        n = rng.pick([0, 5, 12, 25, 40])
        style = rng.randrange(3)
        steps = []
        cur = 0
        for s in range(n):
            if style == 0:
                tid = s % nt
            elif style == 1:
                tid = rng.randrange(nt)
            else:
                if rng.chance(0.4):
                    cur = rng.randrange(nt)
                tid = cur
            steps.append(tid)
    return {"pool": pool, "setup": setup, "progs": progs, "steps": steps}


class C15(PropBase):
    id = "C15"
    harness = "mgrc"
    per_process = True
    props_file = "Props/C15.v"
    props_module = "Props.C15"
    coq_imports = ("From SV Require Import Model.Base Model.Locks Spec.C15Spec Run.Common Run.RunLocks.\n"
                   "Open Scope N_scope.")
    case_type = "lcase"
    agree_fn = "agree"
    spec_fn = "spec_c15"
    counts = {"quick": 450, "thorough": 6000}
    rule = ("one harness process per case (the managers are global): a pool of 3-6 rules (valid and invalid, 3 resources and the "
            "empty name), 0-4 sequential set-up calls, then either one thread making 1-3 calls (its lock profile is observed: "
            "for every lock acquisition of the managers, the node store, the listener list and the breakers' state mutexes, the lock, the mode and the set of these locks "
            "held at that moment) or 2-3 real threads making 1-3 calls each - load-all, load-for-resource, append, clear, "
            "clear-for-resource, get, get-for-resource over flow / hotspot / breaker / isolation / system (load-all, append, clear, get) managers (60% within "
            "one family) and inbound entry build+exit with an argument - under a forced interleaving of the scheduling "
            "points placed before every lock acquisition; in a third of the concurrent cases one breaker rule has a custom strategy "
            "whose generator calls back into read-only manager functions (get_rules, get_rules_of_resource) while the manager "
            "builds the breaker (0-40 steps: round robin, random, runs; a thread that does not come "
            "back within 150 ms counts as blocked and is left alone); a fifth of the cases sweep every kind of call on a populated "
            "manager with one thread (profile), another fifth park one call at its k-th lock while a second call of the same "
            "family and resource runs to its end; another fifth trip a breaker (it opens at the first failed request), let its probe "
            "entry be rejected by a later slot and park that thread at its k-th lock (k = 0..35, through the exit hook that "
            "rolls the breaker back) while a second thread replaces, removes, appends or reads the breaker's rule; verdict: all threads finished / all unfinished threads "
            "blocked for 1.5 s (deadlock); panics per thread; afterwards every manager must answer get, accept a load and a "
            "clear, and an entry must build; non-trivial = two threads or a non-empty lock profile; distinct = distinct case text")
    assumptions = ["reader/writer locks are treated as exclusive in the lock-order theorem (sound for deadlock freedom)",
                   "all breakers' state mutexes are one lock (16) in the profile and the model: sound for the order between them "
                   "and the other locks; no code path holds two of them"]
    trusted_extra = ["the cooperative scheduler of the harness with its blocked-thread detection by time-out "
                     "(harness/src/sched.rs run_blocking) and the script-placed scheduling points before lock acquisitions",
                     "verif_locks_held() (try_lock on each static) as the reader of held locks"]
    partial_note = ("deadlock freedom is proved from the lock order for the sixteen static locks of the five rule managers and the "
                    "node store, the listener list and the breakers' state mutexes, whose acquisition contexts are observed on the implementation. Absence of panics under "
                    "concurrency is checked on the implementation under forced schedules (and, for sequential histories, "
                    "proved under C12); it is not a theorem for all interleavings")

    def gen(self, rng, n, tier):
        return [gen_case(rng, i) for i in range(n)]

    def line(self, c):
        toks = [len(c["pool"])]
        for p in c["pool"]:
            toks += list(p)
        toks.append(len(c["setup"]))
        for o in c["setup"]:
            toks += op_toks(o)
        toks.append(len(c["progs"]))
        for p in c["progs"]:
            toks.append(len(p))
            for o in p:
                toks += op_toks(o)
        toks.append(len(c["steps"]))
        toks += c["steps"]
        return " ".join(str(x) for x in toks)

    def coq(self, c):
        return "mkLCase %d" % len(c["progs"])

    def shrink_candidates(self, c):
        out = []
        st = c["steps"]
        for k in (len(st) // 2, len(st) - 1):
            if 0 <= k < len(st):
                out.append(dict(c, steps=st[:k]))
        for t in range(len(c["progs"])):
            p = c["progs"][t]
            if len(p) > 1:
                out.append(dict(c, progs=c["progs"][:t] + [p[:-1]] + c["progs"][t + 1:]))
                out.append(dict(c, progs=c["progs"][:t] + [p[1:]] + c["progs"][t + 1:]))
        if c["setup"]:
            out.append(dict(c, setup=c["setup"][:-1]))
            out.append(dict(c, setup=c["setup"][1:]))
        return out

    def nontrivial(self, c, obs):
        if not obs:
            return False
        return len(c["progs"]) >= 2 or obs[-1] != 0 or len(obs) > 12

    def stats(self, cases, obs):
        st = {"single_thread_cases": 0, "concurrent_cases": 0, "profile_records": 0, "contexts": {}, "deadlock_verdicts": 0, "panics": 0}
        for c, o in zip(cases, obs):
            if len(c["progs"]) == 1:
                st["single_thread_cases"] += 1
            else:
                st["concurrent_cases"] += 1
            if not o:
                continue
            st["deadlock_verdicts"] += 1 if o[0] == 1 else 0
            st["panics"] += o[1]
            i = 2 + o[1]
            i += 1 + o[i]
            n = o[i]
            st["profile_records"] += n
            for k in range(n):
                lk, mode, mask = o[i + 1 + 3 * k: i + 4 + 3 * k]
                key = "%d<-%s" % (lk, ",".join(str(b) for b in range(NLOCKS) if mask >> b & 1))
                st["contexts"][key] = st["contexts"].get(key, 0) + 1
        return st
