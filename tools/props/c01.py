from props.c04 import C04


class C01(C04):
    id = "C01"
    props_file = "Props/C01.v"
    props_module = "Props.C01"
    coq_imports = ("From SV Require Import Model.Base Model.LeapArray Model.World Run.Common Run.RunWorld Run.RunC01.\n"
                   "Open Scope N_scope.")
    spec_fn = "spec_c01"
    flavor = "flow"
    counts = {"quick": 1500, "thorough": 30000}
    rule = ("1-3 fresh resources, each with 1-3 direct/reject flow rules: thresholds 0..30 incl. fractional "
            "(plus rare negative / NaN / inf / huge), statistic intervals on the default metric (0, 1000), "
            "reusing the 10 s ring (500, 2000, 2500, 5000, 10000) or forcing a private ring (100, 250, 750, "
            "1500, 3000, 7000, 20000, 600000); batch 0..12; clock steps biased to bucket/window boundaries "
            "of the rules in the case (0, 1, b-1, b, b+1, I-1, I, I+1, several windows); exits in random "
            "order; non-trivial = at least two builds and one clock step; distinct = distinct case text")

    def nontrivial(self, c, obs):
        kinds = [o[0] for o in c["ops"]]
        return kinds.count("B") >= 2 and "A" in kinds

    def stats(self, cases, obs):
        st = super().stats(cases, obs)
        st["admitted"] = sum(o.count(0) for o in obs if o)
        iv = {}
        for c in cases:
            for r in c["res"]:
                for f in r["flow"]:
                    iv[f[2]] = iv.get(f[2], 0) + 1
        st["rules_by_interval"] = {str(k): v for k, v in sorted(iv.items())}
        return st
