from runner import PropBase
from props.cbgen import CbCase, gen_cb


class C03(PropBase):
    id = "C03"
    harness = "cb"
    props_file = "Props/C03.v"
    props_module = "Props.C03"
    coq_imports = ("From SV Require Import Model.Base Model.F64 Model.LeapArray Model.Breaker Run.Common Run.RunCb Run.RunC03.\n"
                   "Open Scope N_scope.")
    case_type = "bcase"
    agree_fn = "agree"
    spec_fn = "spec_c03"
    counts = {"quick": 1500, "thorough": 30000}
    rule = ("a fresh resource with 1-2 circuit breakers of the three strategies: min_request_amount 0..4 (..9), "
            "thresholds on and around the boundary (ratios 0, 0.1, 0.25, 1/3, 0.34, 0.5, 0.75, 1; counts 0..5 incl. "
            "fractional), windows of 500..10000 ms with 1..10 buckets (incl. non-dividing counts), retry timeouts "
            "shorter/longer than the window; histories of 8-45 events over {enter (10% rejected by another rule), "
            "complete ok / error of any in-flight entry (fast or slow via the clock), advance by 0, 1, around the "
            "slow-RT limit, bucket length, half/full window, retry timeout (+-1 ms), several windows}; observed: "
            "admissions, block type, listener transitions, state and retry time of every breaker after every "
            "event; non-trivial = at least one state transition was announced; distinct = distinct case text")
    assumptions = ["virtual clock; the listener registered by the harness records transitions; breakers are read "
                   "through get_breakers_of_resource"]
    trusted_extra = ["f64 ratio division/comparison as formalised by Flocq equal the CPU's"]

    def gen(self, rng, n, tier):
        return [gen_cb(rng, i) for i in range(n)]

    def line(self, c):
        return CbCase.line(c)

    def coq(self, c):
        return CbCase.coq(c)

    def key(self, c):
        return " ".join(CbCase.line(c).split()[2:])

    def shrink_candidates(self, c):
        return CbCase.shrink(c)

    @staticmethod
    def transitions(c, obs):
        # count announced transitions by walking the observation layout
        nb = obs[0]
        i = 1 + nb
        n = 0
        for op in c["ops"]:
            if i >= len(obs):
                break
            code = obs[i]
            i += 1
            if code == 1:
                i += 1
            ntr = obs[i]
            n += ntr
            i += 1 + 3 * ntr + 2 * nb
        return n

    def nontrivial(self, c, obs):
        try:
            return self.transitions(c, obs) >= 1
        except Exception:
            return False

    def stats(self, cases, obs):
        st = {"transitions": 0, "cases_with_two_breakers": 0, "builds": 0, "exits": 0, "oracle_rejections": 0,
              "by_strategy": {"slow": 0, "ratio": 0, "count": 0}}
        for c, o in zip(cases, obs):
            try:
                st["transitions"] += self.transitions(c, o)
            except Exception:
                pass
            st["cases_with_two_breakers"] += len(c["rules"]) == 2
            for op in c["ops"]:
                st["builds"] += op[0] == "B"
                st["exits"] += op[0] == "X"
                st["oracle_rejections"] += (op[0] == "B" and op[2] == 1)
            for r in c["rules"]:
                st["by_strategy"][["slow", "ratio", "count"][r["strategy"]]] += 1
        return st
