"""Case generation / rendering shared by the World-model properties (C01, C04, C05)."""
import math
import struct

BASE0 = 1_700_000_000_000


def f64_bits(x):
    return struct.unpack("<Q", struct.pack("<d", x))[0]


def thr_coq(x):
    if math.isnan(x):
        return "TNaN"
    if math.isinf(x):
        return "TPosInf" if x > 0 else "TNegInf"
    num, den = x.as_integer_ratio()
    e = -(den.bit_length() - 1)
    return "(TFin (%d)%%Z (%d)%%Z)" % (num, e)


def opt_coq(x):
    return "None" if x is None else "(Some %d)" % x


class WorldCase:
    """dict layout:
       {"tag": str, "base": int, "res": [ {"flow": [[id, thr(float), interval]], "iso": [[id, thr]]} ],
        "ops": [["B", id, res, batch, inbound(0/1), extra(-1|k)] | ["X", id] | ["A", dt] | ["R", res] | ["RI"]]}"""

    @staticmethod
    def line(c):
        toks = [c["tag"], c["base"], len(c["res"])]
        for r in c["res"]:
            toks.append(len(r["flow"]))
            for f in r["flow"]:
                toks += [f[0], f64_bits(f[1]), f[2]]
            toks.append(len(r["iso"]))
            for i in r["iso"]:
                toks += i
        for o in c["ops"]:
            toks += o
        return " ".join(str(x) for x in toks)

    @staticmethod
    def coq(c):
        res = []
        for r in c["res"]:
            fl = "; ".join("(%d, %s, %d)" % (f[0], thr_coq(f[1]), f[2]) for f in r["flow"])
            il = "; ".join("(%d, %d)" % (i[0], i[1]) for i in r["iso"])
            res.append("([%s], [%s])" % (fl, il))
        ops = []
        for o in c["ops"]:
            if o[0] == "B":
                ops.append("WB %d %d %d %s %s" % (o[1], o[2], o[3], "true" if o[4] else "false",
                                                  opt_coq(None if o[5] < 0 else o[5])))
            elif o[0] == "X":
                ops.append("WX %d" % o[1])
            elif o[0] == "A":
                ops.append("WA %d" % o[1])
            elif o[0] == "R":
                ops.append("WR %d" % o[1])
            else:
                ops.append("WRI")
        return "mkWC %d [%s] [%s]" % (c["base"], "; ".join(res), "; ".join(ops))

    @staticmethod
    def shrink(c):
        res = []
        ops = c["ops"]
        for i in range(len(ops)):
            d = dict(c)
            d["ops"] = ops[:i] + ops[i + 1:]
            res.append(d)
        for k, r in enumerate(c["res"]):
            for kind in ("flow", "iso"):
                for i in range(len(r[kind])):
                    d = dict(c)
                    rr = dict(r)
                    rr[kind] = r[kind][:i] + r[kind][i + 1:]
                    d["res"] = c["res"][:k] + [rr] + c["res"][k + 1:]
                    res.append(d)
        return res


INTERVALS_DEFAULT = [0, 1000]
INTERVALS_REUSE = [500, 2000, 2500, 5000, 10000]
INTERVALS_PRIVATE = [250, 1500, 3000, 20000, 750, 7000, 100, 600000]


def gen_world(rng, idx, flavor):
    """flavor: 'flow' (C01), 'iso' (C05), 'mixed' (C04)"""
    nres = rng.pick([1, 1, 2, 2, 3]) if flavor != "mixed" else rng.pick([2, 2, 3, 4])
    res = []
    rid = [0]

    def nid():
        rid[0] += 1
        return rid[0]
    intervals_seen = []
    for _ in range(nres):
        r = {"flow": [], "iso": []}
        if flavor == "flow" or (flavor == "mixed" and rng.chance(0.5)):
            for _ in range(rng.pick([1, 1, 2, 2, 3])):
                ivl = rng.pick(INTERVALS_DEFAULT * 3 + INTERVALS_REUSE * 2 + INTERVALS_PRIVATE * 2)
                thr = rng.pick([0.0, 1.0, 2.0, 3.0, 5.0, 10.0, 2.5, 0.5, 7.25, 1e-3, 20.0, float(rng.randint(0, 30)),
                                rng.randint(0, 60) / 4.0])
                if rng.chance(0.04):
                    thr = rng.pick([-1.0, float("nan"), float("inf"), -0.0, 1e18])
                r["flow"].append([nid(), thr, ivl])
                intervals_seen.append(ivl)
        if flavor == "iso" or (flavor == "mixed" and rng.chance(0.5)):
            for _ in range(rng.pick([1, 1, 2, 3])):
                r["iso"].append([nid(), rng.pick([1, 1, 2, 2, 3, 4, 5, 8, 0, rng.randint(1, 10)])])
        res.append(r)
    ops = []
    open_ids = []
    eid = 0
    steps = [0, 0, 0, 1, 1, 10, 100, 250, 499, 500, 501, 999, 1000, 1001, 1500, 2000]
    for ivl in intervals_seen:
        if ivl:
            steps += [ivl - 1, ivl, ivl + 1, ivl // 2, 2 * ivl + 3]
    steps += [10000, 10001, 25000]
    nops = rng.randint(8, 45)
    for _ in range(nops):
        r = rng.random()
        if r < 0.45:
            eid += 1
            k = rng.randrange(nres)
            batch = rng.pick([1, 1, 1, 1, 2, 2, 3, 5, 0, rng.randint(0, 12)])
            if flavor == "iso":
                batch = rng.pick([1, 1, 1, 2, 2, 3, rng.randint(1, 6)])
            inbound = 1 if (flavor == "mixed" and rng.chance(0.5)) else 0
            extra = rng.randint(0, 5) if (flavor == "mixed" and rng.chance(0.15)) else -1
            ops.append(["B", eid, k, batch, inbound, extra])
            open_ids.append(eid)
        elif r < 0.62 and open_ids:
            i = rng.randrange(len(open_ids))
            ops.append(["X", open_ids.pop(i)])
        elif r < 0.9:
            dt = rng.pick(steps)
            if rng.chance(0.2):
                dt = rng.randint(0, 1200)
            ops.append(["A", dt])
        elif flavor == "mixed" or rng.chance(0.3):
            if flavor == "mixed" and rng.chance(0.3):
                ops.append(["RI"])
            else:
                ops.append(["R", rng.randrange(nres)])
    if flavor == "mixed":
        ops.append(["R", 0])
        ops.append(["RI"])
    # align the base so that bucket boundaries are hit exactly by the round steps
    base = BASE0 + idx * 1_000_000 + rng.pick([0, 0, 1, 250, 499, 500, 999])
    return {"tag": "%d" % idx, "base": base, "res": res, "ops": ops}
