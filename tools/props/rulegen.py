"""Numeric descriptions of concrete rules of the five families (see harness/src/rules.rs)."""
import struct


def f64_bits(x):
    return struct.unpack("<Q", struct.pack("<d", x))[0]


THR_SANE = [0.0, 0.5, 1.0, 2.5, 10.0, 100.0, 1e6, 0.001]
THR_ODD = [-1.0, -0.0, float("nan"), float("inf"), 1e300, -1e-300]


def gen_rule(rng, family, finite_only=False):
    """returns dict with 'family', 'toks' (list) and the fields (for Coq rendering).
    finite_only (the JSON round trip of C18): finite float thresholds only, and integer hotspot thresholds up to
    2^64-2; every other user stays inside the numeric range the properties quantify over (thresholds 0..1e6):
    beyond it the hotspot checkers' u64 arithmetic (threshold + burst, elapsed * threshold) overflows"""
    def thr():
        if finite_only or rng.chance(0.85):
            return rng.pick(THR_SANE + [float(rng.randint(0, 1000))])
        return rng.pick(THR_ODD)
    res = rng.pick([1, 1, 1, 1, 2, 0])
    if family == 0:
        d = {"res": res, "calc": rng.pick([0, 0, 1, 2]), "ctrl": rng.pick([0, 1]), "rel": rng.pick([0, 0, 1]),
             "ref": rng.pick([0, 1, 2]), "thr": thr(), "warm": rng.pick([0, 1, 10, 600]), "cold": rng.pick([0, 1, 2, 3, 10]),
             "maxq": rng.pick([0, 1, 500, 600000]), "stat": rng.pick([0, 1, 250, 1000, 1500, 2000, 10000, 600000, 600001]),
             "lowmem": rng.pick([0, 10, 1000]), "highmem": rng.pick([0, 5, 10, 2000]),
             "lowwater": rng.pick([0, 1024, 2 ** 62]), "highwater": rng.pick([0, 2048, 1024, 2 ** 63])}
        toks = [0, d["res"], d["calc"], d["ctrl"], d["rel"], d["ref"], f64_bits(d["thr"]), d["warm"], d["cold"], d["maxq"],
                d["stat"], d["lowmem"], d["highmem"], d["lowwater"], d["highwater"]]
    elif family == 1:
        spec = [[v, rng.pick([0, 1, 5, 10 ** 6])] for v in range(rng.pick([0, 0, 1, 3]))]
        d = {"res": res, "metric": rng.pick([0, 1]), "ctrl": rng.pick([0, 1]), "idx": rng.pick([-3, -1, 0, 0, 1, 3]),
             "key": rng.pick([0, 0, 1, 2]), "thr": rng.pick([0, 1, 5, 10 ** 6] + ([2 ** 53 + 1, 2 ** 64 - 2] if finite_only else [])), "maxq": rng.pick([0, 1, 2000]),
             "burst": rng.pick([0, 1, 10 ** 6]), "dur": rng.pick([0, 1, 1, 3, 600]), "cap": rng.pick([0, 0, 1, 100]),
             "spec": spec}
        toks = [1, d["res"], d["metric"], d["ctrl"], d["idx"], d["key"], d["thr"], d["maxq"], d["burst"], d["dur"], d["cap"],
                len(spec)] + [x for p in spec for x in p]
    elif family == 2:
        d = {"res": res, "strategy": rng.pick([0, 1, 2]), "retry": rng.pick([0, 1, 1000, 600000]),
             "minreq": rng.pick([0, 1, 5, 10 ** 6]), "interval": rng.pick([0, 1, 8, 1000, 1000, 10000, 600000]),
             "buckets": rng.pick([0, 1, 2, 3, 10, 7, 4, 400, 700, 3000]), "maxrt": rng.pick([0, 1, 50, 10 ** 6]), "thr": thr()}
        if rng.chance(0.3):
            d["thr"] = rng.pick([0.0, 0.5, 1.0, 1.0000001, 2.0])
        toks = [2, d["res"], d["strategy"], d["retry"], d["minreq"], d["interval"], d["buckets"], d["maxrt"], f64_bits(d["thr"])]
    elif family == 3:
        d = {"res": res, "thr": rng.pick([0, 1, 1, 5, 10 ** 6])}
        toks = [3, d["res"], d["thr"]]
    else:
        d = {"metric": rng.pick([0, 1, 2, 3, 4]), "strategy": rng.pick([0, 1]), "thr": thr()}
        if rng.chance(0.4):
            d["thr"] = rng.pick([0.0, 0.5, 1.0, 1.5, 50.0, 100.0, 100.5])
        toks = [4, d["metric"], d["strategy"], f64_bits(d["thr"])]
    d["family"] = family
    d["toks"] = toks
    return d


def mutate(rng, d):
    """a copy of rule description d with exactly one field changed (or none), toks recomputed"""
    import copy
    e = copy.deepcopy(d)
    f = d["family"]
    fields = {0: ["res", "calc", "ctrl", "rel", "ref", "thr", "warm", "cold", "maxq", "stat", "lowmem", "highmem", "lowwater", "highwater"],
              1: ["res", "metric", "ctrl", "idx", "key", "thr", "maxq", "burst", "dur", "cap", "spec"],
              2: ["res", "strategy", "retry", "minreq", "interval", "buckets", "maxrt", "thr"],
              3: ["res", "thr"],
              4: ["metric", "strategy", "thr"]}[f]
    which = rng.pick(fields + [None, None])
    if which is not None:
        v = e[which]
        if which == "spec":
            e["spec"] = (v[:-1] if v and rng.chance(0.5) else v + [[len(v) + 7, rng.pick([1, 2])]])
            if v and rng.chance(0.3):
                e["spec"] = [[v[0][0], v[0][1] + 1]] + v[1:]
        elif which == "thr" and isinstance(v, float):
            e["thr"] = v + 1.0 if v == v and abs(v) < 1e100 else 3.0
        elif which == "res":
            e["res"] = {0: 1, 1: 2, 2: 1}[v]
        elif which in ("calc", "ref"):
            e[which] = (v + 1) % 3
        elif which == "key":
            e[which] = (v + 1) % 3
        elif which in ("ctrl", "rel"):
            e[which] = 1 - v
        elif which == "metric":
            e[which] = (v + 1) % (2 if f == 1 else 5)
        elif which == "strategy":
            e[which] = (v + 1) % (3 if f == 2 else 2)
        elif which == "idx":
            e[which] = v + 1
        else:
            e[which] = v + 1
    e["changed"] = which
    e["toks"] = toks_of(e)
    return e


def toks_of(d):
    f = d["family"]
    if f == 0:
        return [0, d["res"], d["calc"], d["ctrl"], d["rel"], d["ref"], f64_bits(d["thr"]), d["warm"], d["cold"], d["maxq"],
                d["stat"], d["lowmem"], d["highmem"], d["lowwater"], d["highwater"]]
    if f == 1:
        return [1, d["res"], d["metric"], d["ctrl"], d["idx"], d["key"], d["thr"], d["maxq"], d["burst"], d["dur"], d["cap"],
                len(d["spec"])] + [x for p in d["spec"] for x in p]
    if f == 2:
        return [2, d["res"], d["strategy"], d["retry"], d["minreq"], d["interval"], d["buckets"], d["maxrt"], f64_bits(d["thr"])]
    if f == 3:
        return [3, d["res"], d["thr"]]
    return [4, d["metric"], d["strategy"], f64_bits(d["thr"])]


def coq_full(d):
    f = d["family"]
    fb = "(f64_of_bits %d)"
    if f == 0:
        return "mkFF %d %d %d %d %d %s %d %d %d %d %d %d %d %d" % (
            d["res"], d["ref"], d["calc"], d["ctrl"], d["rel"], fb % f64_bits(d["thr"]), d["warm"], d["cold"], d["maxq"],
            d["stat"], d["lowmem"], d["highmem"], d["lowwater"], d["highwater"])
    if f == 1:
        return "mkHF %d %d %d (%d)%%Z %d %d %d %d %d %d [%s]" % (
            d["res"], d["metric"], d["ctrl"], d["idx"], d["key"], d["thr"], d["maxq"], d["burst"], d["dur"], d["cap"],
            "; ".join("(%d, %d)" % (a, b) for a, b in d["spec"]))
    if f == 2:
        return "mkCF %d %d %d %d %d %d %d %s" % (d["res"], d["strategy"], d["retry"], d["minreq"], d["interval"],
                                                 d["buckets"], d["maxrt"], fb % f64_bits(d["thr"]))
    if f == 3:
        return "mkIF %d %d" % (d["res"], d["thr"])
    return "mkSF %d %d %s" % (d["metric"], d["strategy"], fb % f64_bits(d["thr"]))
