from runner import PropBase
from props.worldgen import WorldCase, gen_world


class C04(PropBase):
    id = "C04"
    harness = "world"
    props_file = "Props/C04.v"
    props_module = "Props.C04"
    coq_imports = ("From SV Require Import Model.Base Model.LeapArray Model.World Run.Common Run.RunWorld Run.RunC04.\n"
                   "Open Scope N_scope.")
    case_type = "wcase"
    agree_fn = "agree"
    spec_fn = "spec_c04"
    flavor = "mixed"
    counts = {"quick": 1200, "thorough": 24000}
    rule = ("2-4 fresh resources per case, some with flow reject rules (default / reused / private windows) "
            "and isolation rules, inbound and outbound entries with batch 0..12, an oracle check slot that "
            "blocks some entries with a foreign block type, exits in random order, clock steps biased to "
            "bucket and window boundaries, reads of the resource node and of the inbound node; non-trivial "
            "= at least one admission, one exit and one read; distinct = distinct case text")
    assumptions = ["virtual clock (hook); one harness process runs many cases on fresh resource names; the "
                   "shared inbound node is compared through window reads only (cases are > 10 s apart)"]
    trusted_extra = ["parsing of the Debug text of the build error for block type / rule id / snapshot"]

    def gen(self, rng, n, tier):
        return [gen_world(rng, i, self.flavor) for i in range(n)]

    def line(self, c):
        return WorldCase.line(c)

    def coq(self, c):
        return WorldCase.coq(c)

    def key(self, c):
        return " ".join(WorldCase.line(c).split()[2:])

    def shrink_candidates(self, c):
        return WorldCase.shrink(c)

    def nontrivial(self, c, obs):
        kinds = [o[0] for o in c["ops"]]
        return "B" in kinds and "X" in kinds and ("R" in kinds or "RI" in kinds)

    def stats(self, cases, obs):
        st = {"builds": 0, "exits": 0, "reads": 0, "cases_with_block": 0, "inbound_builds": 0,
              "oracle_blocks": 0, "advances": 0}
        for c, o in zip(cases, obs):
            for op in c["ops"]:
                if op[0] == "B":
                    st["builds"] += 1
                    st["inbound_builds"] += op[4]
                    st["oracle_blocks"] += 1 if op[5] >= 0 else 0
                elif op[0] == "X":
                    st["exits"] += 1
                elif op[0] == "A":
                    st["advances"] += 1
                else:
                    st["reads"] += 1
        return st
