import struct

from runner import PropBase


def bits(x):
    return struct.unpack(">q", struct.pack(">d", float(x)))[0]


def gen_aba(rng):
    """a thread parked between its deadline check and the guarded transition while another probes and fails"""
    retry = rng.pick([1, 5, 100, 1000])
    strat = rng.pick([1, 2])
    base = 1_700_000_000_000 + rng.randrange(0, 10_000_000)
    rule = [strat, retry, 1, 10000, 1, 0, bits(1.0 if strat == 2 else 0.5)]
    pre = [("B",), ("X", 1), ("A", retry + rng.pick([0, 0, 1]))]
    nt = rng.pick([2, 3])
    progs = [[("B", 0)] + ([("X", rng.pick([0, 1]))] if rng.chance(0.5) else [])]
    progs.append([("B", 0), ("X", 1)] + ([("B", 0)] if rng.chance(0.3) else []))
    if nt == 3:
        progs.append([("B", 0), ("X", rng.pick([0, 1]))])
    steps = [(0, 0), (0, 0)] + [(1, 0)] * rng.pick([5, 6, 7, 8])
    if nt == 3 and rng.chance(0.5):
        steps.insert(2, (2, 0))
        steps.insert(3, (2, 0))
    steps += [(rng.randrange(nt), rng.pick([0, 0, 0, 1, retry])) for _ in range(rng.pick([0, 3, 8]))]
    return {"base": base, "rule": rule, "pre": pre, "progs": progs, "steps": steps}


def gen_stale(rng):
    """a completion that read Half-Open is parked before its guarded transition while the probe fails (or succeeds) first"""
    retry = rng.pick([1, 5, 100])
    strat = rng.pick([1, 2])
    base = 1_700_000_000_000 + rng.randrange(0, 10_000_000)
    rule = [strat, retry, 1, 10000, 1, 0, bits(1.0 if strat == 2 else 0.5)]
    e_probe = rng.pick([1, 1, 0])
    e_stale = rng.pick([0, 0, 1])
    progs = [[("B", 0), ("X", e_probe)], [("B", 0), ("X", e_stale)], [("B", 0), ("X", 1)]]
    steps = [(1, 0), (1, 0)]                      # thread 1 is admitted while Closed and parks in its completion
    steps += [(2, 0)] * 6                         # thread 2 fails and trips the breaker
    steps += [(0, retry), (0, 0), (0, 0)]         # thread 0 probes after the deadline and parks in its completion
    steps += [(1, 0)]                             # thread 1 reads Half-Open and parks before its transition
    steps += [(0, 0), (0, 0)]                     # the probe decides first
    steps += [(1, 0), (1, 0)]
    if rng.chance(0.5):
        k = rng.randrange(2, len(steps))
        steps.insert(k, (rng.randrange(3), 0))
    steps += [(rng.randrange(3), rng.pick([0, 0, retry])) for _ in range(rng.pick([0, 2, 6]))]
    return {"base": base, "rule": rule, "pre": [], "progs": progs, "steps": steps}


def gen_rollback(rng):
    """a probe that a later slot rejects is parked before its exit hook while a completion admitted earlier decides"""
    retry = rng.pick([1, 5, 100])
    strat = rng.pick([1, 2])
    base = 1_700_000_000_000 + rng.randrange(0, 10_000_000)
    rule = [strat, retry, 1, 10000, 1, 0, bits(1.0 if strat == 2 else 0.5)]
    e_stale = rng.pick([0, 0, 1])
    progs = [[("B", 1)] + ([("B", 0)] if rng.chance(0.4) else []), [("B", 0), ("X", e_stale)], [("B", 0), ("X", 1)]]
    steps = [(1, 0), (1, 0)]                      # thread 1 is admitted while Closed and parks in its completion
    steps += [(2, 0)] * 6                         # thread 2 fails and trips the breaker
    steps += [(0, retry), (0, 0), (0, 0)]         # thread 0 probes after the deadline; the later slot parks it
    steps += [(1, 0), (1, 0), (1, 0)]             # thread 1's completion decides while the probe is parked
    steps += [(0, 0), (0, 0)]
    if rng.chance(0.5):
        k = rng.randrange(2, len(steps))
        steps.insert(k, (rng.randrange(3), 0))
    steps += [(rng.randrange(3), rng.pick([0, 0, retry])) for _ in range(rng.pick([0, 2, 6]))]
    return {"base": base, "rule": rule, "pre": [], "progs": progs, "steps": steps}


def gen_case(rng, i):
    if i % 8 == 3:
        return gen_aba(rng)
    if i % 8 == 5:
        return gen_stale(rng)
    if i % 8 == 7:
        return gen_rollback(rng)
    strat = rng.pick([0, 1, 2, 2])
    retry = rng.pick([1, 1, 5, 20, 100, 1000])
    minr = rng.pick([0, 1, 1, 2, 3])
    iv, buckets = rng.pick([(1000, 1), (1000, 2), (10000, 1), (200, 4), (1000, 3)])
    maxrt = rng.pick([0, 1, 5, 50])
    if strat == 2:
        thr = rng.pick([1.0, 1.0, 2.0, 3.0, 0.0])
    else:
        thr = rng.pick([0.0, 0.3, 0.5, 0.5, 1.0])
    base = 1_700_000_000_000 + rng.randrange(0, 10_000_000)
    # prelude: usually drives the breaker open and up to (or just before) its retry deadline
    pre = []
    style = rng.randrange(5)
    if style >= 1:
        k = rng.pick([1, 1, 2, 3])
        for _ in range(k):
            pre.append(("B",))
            if rng.chance(0.5):
                pre.append(("A", rng.pick([1, maxrt, maxrt + 1, 10])))
            pre.append(("X", 1 if rng.chance(0.85) else 0))
        if style >= 2:
            pre.append(("A", rng.pick([retry, retry, max(0, retry - 1), retry + 1, retry // 2])))
    if style == 4 and rng.chance(0.5):
        pre.append(("B",))          # an entry in flight on the main thread
    nt = rng.pick([2, 2, 3, 3, 4])
    progs = []
    for t in range(nt):
        k = rng.pick([1, 2, 2, 3, 4, 5])
        ops = []
        opened = 0
        for _ in range(k):
            if opened > 0 and rng.chance(0.55):
                ops.append(("X", 1 if rng.chance(0.6) else 0))
                opened -= 1
            else:
                other = 1 if rng.chance(0.15) else 0
                ops.append(("B", other))
                opened += 1 - other
        if rng.chance(0.5):
            ops.append(("X", 1 if rng.chance(0.5) else 0))
        progs.append(ops)
    nsteps = rng.pick([0, 8, 20, 40, 70])
    sstyle = rng.randrange(4)
    steps = []
    cur = 0
    for s in range(nsteps):
        if sstyle == 0:
            tid = s % nt
        elif sstyle == 1:
            tid = rng.randrange(nt)
        elif sstyle == 2:
            if rng.chance(0.35):
                cur = rng.randrange(nt)
            tid = cur
        else:
            tid = rng.pick([0, 0, 1, 1, 1, nt - 1])
        r = rng.random()
        if r < 0.7:
            dt = 0
        elif r < 0.85:
            dt = rng.pick([1, 2, maxrt + 1, 5])
        elif r < 0.97:
            dt = rng.pick([retry, max(0, retry - 1), retry + 1, retry // 2])
        else:
            dt = rng.pick([iv, iv // max(1, buckets), iv + 1])
        steps.append((tid, dt))
    return {"base": base, "rule": [strat, retry, minr, iv, buckets, maxrt, bits(thr)], "pre": pre, "progs": progs, "steps": steps}


def gen_free16(rng, i):
    strat = rng.pick([1, 2])
    retry = rng.pick([1, 2, 5])
    base = 1_700_000_000_000 + rng.randrange(0, 10_000_000)
    rule = [strat, retry, 1, 10000, 1, 0, bits(1.0 if strat == 2 else 0.5)]
    pre = [("B",), ("X", 1), ("A", retry)]
    nt = rng.pick([4, 6, 8])
    progs = []
    for t in range(nt):
        ops = []
        for _ in range(rng.pick([40, 80])):
            ops.append(("B", 0))
            ops.append(("X", 1 if rng.chance(0.7) else 0))
        progs.append(ops)
    return {"base": base, "rule": rule, "pre": pre, "progs": progs, "steps": [], "free": True}


class C16Free(PropBase):
    """real threads running freely (no forced schedule) against a breaker that keeps tripping and probing"""
    id = "C16"
    harness = "cbc"
    per_process = True
    props_file = "Props/C16.v"
    props_module = "Props.C16"
    coq_imports = ("From SV Require Import Model.Base Model.F64 Model.LeapArray Model.Breaker Model.ConcCb Spec.C16Spec "
                   "Run.Common Run.RunConc Run.RunConcCb.\nOpen Scope N_scope.")
    case_type = "kcase"
    agree_fn = "agree_free"
    spec_fn = "spec_c16_free"
    counts = {"quick": 48, "thorough": 400}
    rule = ("one process per case: 4-8 real threads each build and complete 40-80 entries (70% with an error) on a breaker "
            "with threshold 1 and a retry time of 1-5 ms, freely in parallel while a ticker advances the virtual clock; "
            "the listener events (delivered under the state lock) must form a valid path with every Open to Half-Open at or "
            "after the deadline in force; non-trivial = at least four transitions")
    assumptions = []
    trusted_extra = []
    partial_note = ""

    def gen(self, rng, n, tier):
        return [gen_free16(rng, i) for i in range(n)]

    def line(self, c):
        return C16.line(self, c) + " F"

    def key(self, c):
        return self.line(c)

    def coq(self, c):
        return C16.coq(self, dict(c, progs=[p[:2] for p in c["progs"]]))     # the programs are not needed by the predicate

    def nontrivial(self, c, obs):
        return sum(1 for e in C16._log(self, obs) if e[0] == 1) >= 4

    def stats(self, cases, obs):
        return {"transitions": sum(sum(1 for e in C16._log(self, o) if e[0] == 1) for o in obs if o)}


class C16(PropBase):
    id = "C16"
    harness = "cbc"
    per_process = True
    props_file = "Props/C16.v"
    props_module = "Props.C16"
    coq_imports = ("From SV Require Import Model.Base Model.F64 Model.LeapArray Model.Breaker Model.ConcCb Spec.C16Spec "
                   "Run.Common Run.RunConc Run.RunConcCb.\nOpen Scope N_scope.")
    case_type = "kcase"
    agree_fn = "agree"
    spec_fn = "spec_c16"
    counts = {"quick": 500, "thorough": 10000}
    rule = ("one harness process per case: one breaker (3 strategies, retry 0-1000 ms, min requests 0-3, thresholds around "
            "what the history produces, 1-4 counter buckets) on one resource; a sequential prelude that usually trips the "
            "breaker and moves the clock to around the retry deadline; then 2-4 real threads build and complete entries "
            "(with / without error, slow / fast) under a forced interleaving of the breaker's scheduling points (before each "
            "state read and before each guarded transition), 0-70 (thread, clock advance) steps: round robin, random, "
            "runs, skewed; clock advances of 0, around the slow-call limit, around the retry timeout, around the counter "
            "window; compared: the whole point trace, the common log of listener events (with thread, clock and deadline), "
            "build results and exits in order, final state and deadline; non-trivial = the log has at least one transition "
            "made by a scheduled thread; distinct = distinct case text")
    assumptions = ["threads are interleaved only at the guarded scheduling points of the breaker (cooperative scheduler); "
                   "the statistics code between them runs without interference in these runs",
                   "virtual clock (hook) instead of the OS clock"]
    trusted_extra = ["the cooperative scheduler of the harness (harness/src/sched.rs) and the placement of the scheduling points",
                     "f64 ratio arithmetic as formalised by Flocq equals the CPU's"]
    partial_note = ("the theorems quantify over every schedule of the model's segments (a thread runs from one scheduling "
                    "point to the next); the mutex-protected compare-and-set inside each from_ function is one atomic step, "
                    "which is what the state mutex provides; counter updates racing with reset_metric are not part of the property")

    def parts(self):
        return [self, C16Free()]

    def gen(self, rng, n, tier):
        return [gen_case(rng, i) for i in range(n)]

    def line(self, c):
        toks = [c["base"]] + list(c["rule"]) + [len(c["pre"])]
        for o in c["pre"]:
            toks += list(o)
        toks.append(len(c["progs"]))
        for p in c["progs"]:
            toks.append(len(p))
            for o in p:
                toks += list(o)
        toks.append(len(c["steps"]))
        for tid, dt in c["steps"]:
            toks += [tid, dt]
        return " ".join(str(x) for x in toks)

    def coq(self, c):
        def b(x):
            return "true" if x else "false"
        pre = "[" + "; ".join("PB" if o[0] == "B" else ("PX %s" % b(o[1]) if o[0] == "X" else "PA %d" % o[1]) for o in c["pre"]) + "]"
        progs = "[" + "; ".join("[" + "; ".join("KB %s" % b(o[1]) if o[0] == "B" else "KX %s" % b(o[1]) for o in p) + "]" for p in c["progs"]) + "]"
        steps = "[" + "; ".join("(%d%%nat, %d)" % (t, d) for t, d in c["steps"]) + "]"
        r = c["rule"]
        rule = "(%d, %d, %d, %d, %d, %d, (%d)%%Z)" % tuple(r)
        return "mkKCase %d %s %s %s %s" % (c["base"], rule, pre, progs, steps)

    def shrink_candidates(self, c):
        out = []
        st = c["steps"]
        for k in (len(st) // 2, len(st) - 1):
            if 0 <= k < len(st):
                out.append(dict(c, steps=st[:k]))
        for i in range(len(st)):
            out.append(dict(c, steps=st[:i] + st[i + 1:]))
        for t in range(len(c["progs"])):
            p = c["progs"][t]
            if p:
                out.append(dict(c, progs=c["progs"][:t] + [p[:-1]] + c["progs"][t + 1:]))
        if c["pre"]:
            out.append(dict(c, pre=c["pre"][:-1]))
        return out

    def _log(self, obs):
        if not obs or len(obs) < 2:
            return []
        n = obs[1]
        i = 2 + 2 * n
        if i >= len(obs):
            return []
        m = obs[i]
        return [obs[i + 1 + 6 * k: i + 7 + 6 * k] for k in range(m)]

    def nontrivial(self, c, obs):
        return any(e[0] == 1 and e[1] >= 0 for e in self._log(obs))

    def stats(self, cases, obs):
        st = {"transitions_by_threads": 0, "o2h": 0, "blocked_builds": 0, "admitted_builds": 0, "strategy": {}}
        for c, o in zip(cases, obs):
            st["strategy"][str(c["rule"][0])] = st["strategy"].get(str(c["rule"][0]), 0) + 1
            for e in self._log(o):
                if e[0] == 1 and e[1] >= 0:
                    st["transitions_by_threads"] += 1
                    if e[2] == 2 and e[3] == 1:
                        st["o2h"] += 1
                elif e[0] == 2:
                    if e[2]:
                        st["admitted_builds"] += 1
                    else:
                        st["blocked_builds"] += 1
        return st
