"""Rule-manager cases (C10, C11, C12)."""


class MgrCase:
    @staticmethod
    def line(c):
        toks = [c["tag"], c["family"], len(c["pool"])]
        for r in c["pool"]:
            toks += r
        toks.append(c["nres"])
        for o in c["ops"]:
            if o[0] == "L":
                toks += ["L", len(o[1])] + o[1]
            elif o[0] == "R":
                toks += ["R", o[1], len(o[2])] + o[2]
            else:
                toks += o
        return " ".join(str(x) for x in toks)

    @staticmethod
    def coq(c):
        # an invalid isolation rule has threshold 0, so all invalid isolation rules of a resource are equal rules: one class
        def key_of(r):
            return 0 if (c["family"] >= 3 and r[2] % 5 == 0) else r[2]
        pool = "; ".join("mkRule %d %d %d %s %d" % (r[0], r[1], key_of(r), "true" if (r[2] % 5 != 0 and r[1] != 0) else "false", r[2] % 2)
                         for r in c["pool"])

        def nl(l):
            return "[%s]" % "; ".join("%d%%nat" % x for x in l)
        ops = []
        for o in c["ops"]:
            k = o[0]
            if k == "L":
                ops.append("CLoadAll %s" % nl(o[1]))
            elif k == "R":
                ops.append("CLoadRes %d %s" % (o[1], nl(o[2])))
            elif k == "P":
                ops.append("CAppend %d%%nat" % o[1])
            elif k == "C":
                ops.append("CClear")
            elif k == "K":
                ops.append("CClearRes %d" % o[1])
            elif k == "G":
                ops.append("CGetAll")
            elif k == "Q":
                ops.append("CGetRes %d" % o[1])
            else:
                ops.append("CEnforced %d" % o[1])
        return "mkMCase %d [%s] %d [%s]" % (c["family"], pool, c["nres"], "; ".join(ops))

    @staticmethod
    def shrink(c):
        res = []
        for i in range(len(c["ops"])):
            d = dict(c)
            d["ops"] = c["ops"][:i] + c["ops"][i + 1:]
            res.append(d)
        return res


def gen_mgr(rng, idx, family=None):
    fam = family if family is not None else rng.pick([0, 0, 1, 2, 3, 4])
    nres = rng.pick([2, 2, 3])
    pool = []
    rid = 0
    keys = [1, 2, 3, 4, 6, 7, 5, 10, 8, 9]          # 5 and 10 are invalid (k % 5 == 0)
    for res in range(1, nres + 1):
        for k in rng.sample(keys, rng.pick([2, 3, 4])):
            rid += 1
            pool.append([rid, res, k])
            if rng.chance(0.2):                       # the same rule under another id
                rid += 1
                pool.append([rid, res, k])
    if rng.chance(0.15) and fam != 4:
        rid += 1
        pool.append([rid, 0, rng.pick(keys)])         # a rule for the empty resource name
    n = len(pool)
    ops = []
    for _ in range(rng.randint(4, 12)):
        x = rng.random()
        if x < 0.22:
            ixs = rng.sample(range(n), rng.randint(0, min(n, 6)))
            ops.append(["L", ixs])
        elif x < 0.44 and fam == 4:
            ixs = rng.sample(range(n), rng.randint(0, min(n, 5)))
            if ixs and rng.chance(0.5):
                ixs = ixs + [rng.pick(ixs)] if rng.chance(0.3) else ixs[::-1]      # same rules, other order / one twice
            ops.append(["L", ixs])
        elif x < 0.44:
            res = rng.pick(list(range(1, nres + 1)) + ([0] if rng.chance(0.3) else []))
            cand = [i for i in range(n) if pool[i][1] == res] or list(range(n))
            ixs = rng.sample(cand, rng.randint(0, len(cand)))
            if fam in (0, 1) and rng.chance(0.1):
                ixs.append(rng.randrange(n))           # a rule of another resource slipped in
            ops.append(["R", res, ixs])
        elif x < 0.78:
            ops.append(["P", rng.randrange(n)])
        elif x < 0.83:
            ops.append(["C"])
        elif x < 0.9 and fam != 4:
            ops.append(["K", rng.randint(1, nres)])
        # readers after every mutation
        ops.append(["G"])
        if fam != 4:
            for res in range(1, nres + 1):
                ops.append(["Q", res])
                ops.append(["E", res])
    return {"tag": "%d" % idx, "family": fam, "pool": pool, "nres": nres, "ops": ops}
