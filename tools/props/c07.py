from runner import PropBase
from props.c06 import C06
from props.thrgen import ThrCase, gen_thr


class C07Flow(PropBase):
    id = "C07"
    harness = "thr"
    props_file = "Props/C07.v"
    props_module = "Props.C07"
    coq_imports = ("From SV Require Import Model.Base Model.F64 Model.Throttle Run.Common Run.RunThr Run.RunC07.\n"
                   "Open Scope Z_scope.")
    case_type = "tcase"
    agree_fn = "RunThr.agree"
    spec_fn = "spec_c07_flow"
    counts = {"quick": 1000, "thorough": 20000}
    rule = ("flow throttling: a fresh resource with 1-2 throttling rules, rate 0.5..1000 (also 0 and fractional) "
            "per 100..10000 ms, max queueing 0..2000 ms, batch 0..12, arrivals on the virtual nanosecond clock at "
            "the scheduled slot, 1 ns before/after it, at the queue limit +-1 ns, bursts at one instant and long "
            "gaps; the Spec is evaluated on the single-rule cases; non-trivial = at least 3 builds")
    assumptions = ["virtual clock: sleep_for_ns advances it by exactly the requested amount; real thread::sleep "
                   "accuracy is OS behaviour outside the model"]
    trusted_extra = ["IEEE-754 binary64 division/multiplication/truncation as formalised by Flocq equal the CPU's"]
    partial_note = ("real thread::sleep accuracy is outside the model: the theorems show the requested delay, in "
                    "the right unit, reaches the scheduled time")

    def gen(self, rng, n, tier):
        return [gen_thr(rng, i) for i in range(n)]

    def line(self, c):
        return ThrCase.line(c)

    def coq(self, c):
        return ThrCase.coq(c)

    def key(self, c):
        return " ".join(ThrCase.line(c).split()[2:])

    def shrink_candidates(self, c):
        return ThrCase.shrink(c)

    def nontrivial(self, c, obs):
        return sum(1 for o in c["ops"] if o[0] == "B") >= 3

    def stats(self, cases, obs):
        st = {"builds": 0, "advances": 0, "single_rule_cases": 0}
        for c in cases:
            st["builds"] += sum(1 for o in c["ops"] if o[0] == "B")
            st["advances"] += sum(1 for o in c["ops"] if o[0] == "A")
            st["single_rule_cases"] += len(c["rules"]) == 1
        return st


class C07Hot(C06):
    id = "C07"
    props_file = "Props/C07.v"
    props_module = "Props.C07"
    coq_imports = ("From SV Require Import Model.Base Model.Hotspot Run.Common Run.RunHot Run.RunC07.\n"
                   "Open Scope N_scope.")
    agree_fn = "RunHot.agree"
    spec_fn = "spec_c07_hot"
    flavor = "throttle"
    counts = {"quick": 1000, "thorough": 20000}
    rule = ("hotspot QPS throttling: a fresh resource with 1-3 throttling rules (rate 0..1000 per 1..10 s, max "
            "queueing 0..2000 ms, per-value overrides), 1-4 parameter values, batch 1..12, clock steps at the "
            "cost and at cost - maxq (+-1 ms); the Spec is evaluated on the single-rule cases; non-trivial = at "
            "least 3 builds with an extractable value")


class C07(C07Flow):
    def parts(self):
        return [C07Flow(), C07Hot()]
