from runner import PropBase


class C17(PropBase):
    id = "C17"
    harness = "cfg"
    per_process = True
    props_file = "Props/C17.v"
    props_module = "Props.C17"
    coq_imports = ("From SV Require Import Model.Base Model.LeapArray Model.Config Run.Common Run.RunC17.\n"
                   "Open Scope N_scope.")
    case_type = "stat_cfg"
    agree_fn = "agree"
    spec_fn = "spec_c17"
    counts = {"quick": 300, "thorough": 4000}
    rule = ("one harness process per configuration (sample_count_total, interval_ms_total, sample_count, "
            "interval_ms) from a grid incl. zero, non-dividing and non-tiling values, with the metric log on or off, offered by "
            "entity (check + reset_global_config), by YAML file (init_config_with_yaml) and through the public "
            "init_with_config after an earlier init_with_config of the defaults; observed: acceptance, after a rejection the "
            "four values still in effect (the defaults), the four values read on the initialising thread and "
            "on a thread spawned afterwards and on a worker thread that had read the configuration before it was installed, an entry built and exited on each thread (no panic) and the geometry of the "
            "node created there; non-trivial = accepted and different from the default configuration; distinct "
            "= distinct case text")
    assumptions = ["background collectors / time ticker of init_core_components are not started (the harness "
                   "calls the validation + store directly and the YAML loader)"]
    trusted_extra = ["serde_yaml parsing of the configuration file"]

    def gen(self, rng, n, tier):
        cases = []
        for _ in range(n):
            r = rng.random()
            if r < 0.55:
                # servable: ring sct x bl, metric window k*bl with wsc | k
                sct = rng.pick([1, 2, 4, 5, 10, 20, 20, 40])
                bl = rng.pick([1, 10, 100, 250, 500, 500, 1000])
                ivt = sct * bl
                ks = [d for d in range(1, sct + 1) if sct % d == 0]
                k = rng.pick(ks)
                iv = k * bl
                sc = rng.pick([d for d in range(1, k + 1) if k % d == 0])
            elif r < 0.7:
                # metric window given the same (possibly unservable) geometry as the ring
                sct = rng.pick([0, 1, 3, 7, 6, 20])
                ivt = rng.pick([0, 1000, 1000, 700, 10000, 9999])
                sc, iv = sct, ivt
            else:
                sct = rng.pick([0, 1, 3, 7, 20, 20, 16])
                ivt = rng.pick([0, 1000, 10000, 10000, 9999, 700])
                sc = rng.pick([0, 1, 2, 2, 3, 5])
                iv = rng.pick([0, 1000, 1000, 500, 300, 2000, 20000, 1500])
            cases.append({"mode": rng.pick([0, 0, 1, 1, 2]), "v": [sct, ivt, sc, iv], "flush": rng.pick([0, 1, 1])})
        return cases

    def line(self, c):
        return " ".join(str(x) for x in [c["mode"]] + c["v"] + [c.get("flush", 1)])

    def coq(self, c):
        return "mkSC %d %d %d %d" % tuple(c["v"])

    def nontrivial(self, c, obs):
        return bool(obs) and obs[0] == 1 and c["v"] != [20, 10000, 2, 1000]

    def stats(self, cases, obs):
        return {"accepted": sum(1 for o in obs if o and o[0] == 1), "rejected": sum(1 for o in obs if o and o[0] == 0),
                "by_yaml": sum(1 for c in cases if c["mode"] == 1)}
