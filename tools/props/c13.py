from runner import PropBase


class C13(PropBase):
    id = "C13"
    harness = "c13"
    props_file = "Props/C13.v"
    props_module = "Props.C13"
    coq_imports = ("From SV Require Import Model.Base Model.SlotChain Run.Common Run.RunC13.\n"
                   "Open Scope N_scope.")
    case_type = "case13"
    counts = {"quick": 2000, "thorough": 40000}
    rule = ("custom chains of 0..4 recording slots of each kind (distinct ids, order values from a small "
            "range so ties are frequent, added in random order), every check slot assigned pass / "
            "blocked(type i) / wait; driven through EntryBuilder::build and one exit(); non-trivial = at "
            "least 2 slots in some phase and at least one check slot; distinct = distinct case text")
    assumptions = ["slot ids are distinct within a case; the order among equal order values is left free "
                   "(comparison is up to tie order, the Spec accepts any ascending arrangement)"]
    trusted_extra = ["recording slots implemented in the harness (c13.rs) log from inside the callbacks"]

    def gen(self, rng, n, tier):
        return [self.gen_one(rng) for _ in range(n)]

    def gen_one(self, rng):
        nid = [0]

        def slot():
            nid[0] += 1
            return [nid[0], rng.pick([0, 1, 1, 2, 2, 3, 5, 1000, 4294967295, rng.randint(0, 6)])]
        pre = [slot() for _ in range(rng.pick([0, 1, 1, 2, 3, 4]))]
        chk = []
        for _ in range(rng.pick([0, 1, 2, 2, 3, 3, 4, 4])):
            s = slot()
            r = rng.random()
            if r < 0.55:
                s += [0, 0]
            elif r < 0.85:
                s += [1, rng.randint(0, 5)]
            else:
                s += [2, rng.pick([0, 1, 1000, 10 ** 9])]
            chk.append(s)
        stat = [slot() for _ in range(rng.pick([0, 1, 2, 2, 3, 4]))]
        return {"pre": pre, "chk": chk, "stat": stat}

    def line(self, c):
        toks = [len(c["pre"])] + [x for s in c["pre"] for x in s]
        toks += [len(c["chk"])] + [x for s in c["chk"] for x in s]
        toks += [len(c["stat"])] + [x for s in c["stat"] for x in s]
        return " ".join(str(x) for x in toks)

    def coq(self, c):
        def sl(s):
            return "mkS %d %d" % (s[0], s[1])

        def res(s):
            return ["CPass", "CBlocked %d" % s[3], "CWait %d" % s[3]][s[2]]
        return "mkC13 [%s] [%s] [%s]" % (
            "; ".join(sl(s) for s in c["pre"]),
            "; ".join("(%s, %s)" % (sl(s), res(s)) for s in c["chk"]),
            "; ".join(sl(s) for s in c["stat"]))

    def nontrivial(self, c, obs):
        return len(c["chk"]) >= 1 and max(len(c["pre"]), len(c["chk"]), len(c["stat"])) >= 2

    def shrink_candidates(self, c):
        res = []
        for k in ("pre", "chk", "stat"):
            for i in range(len(c[k])):
                d = dict(c)
                d[k] = c[k][:i] + c[k][i + 1:]
                res.append(d)
        return res

    def stats(self, cases, obs):
        st = {"blocked": 0, "admitted": 0, "with_ties": 0, "with_wait": 0, "two_blockers": 0}
        for c, o in zip(cases, obs):
            if o and o[0] == 0:
                st["admitted"] += 1
            elif o:
                st["blocked"] += 1
            for k in ("pre", "chk", "stat"):
                ords = [s[1] for s in c[k]]
                if len(set(ords)) < len(ords):
                    st["with_ties"] += 1
                    break
            if any(s[2] == 2 for s in c["chk"]):
                st["with_wait"] += 1
            if sum(1 for s in c["chk"] if s[2] == 1) >= 2:
                st["two_blockers"] += 1
        return st
