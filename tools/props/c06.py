from runner import PropBase
from props.hotgen import HotCase, gen_hot


class C06(PropBase):
    id = "C06"
    harness = "hot"
    props_file = "Props/C06.v"
    props_module = "Props.C06"
    coq_imports = ("From SV Require Import Model.Base Model.Hotspot Run.Common Run.RunHot Run.RunC06.\n"
                   "Open Scope N_scope.")
    case_type = "hcase"
    agree_fn = "agree"
    spec_fn = "spec_c06"
    flavor = "reject"
    counts = {"quick": 1500, "thorough": 30000}
    rule = ("a fresh resource with 1-2 hotspot QPS reject rules: threshold q 0..20, burst 0..10, duration 1..3 s, "
            "overrides for some of 1-4 parameter values (positional incl. negative indices, or keyed "
            "attachments; some requests with missing parameters), batch 1..12, clock steps biased to the "
            "duration (d-1, d, d+1 ms, several durations) and zero gaps; non-trivial = at least 3 builds with "
            "an extractable value; distinct = distinct case text")
    assumptions = ["the number of distinct values stays far below the counters' capacity (no LRU eviction), as "
                   "the property states; eviction is not modelled"]
    trusted_extra = ["hotspot LRU counters (crate lru) modelled as maps without eviction"]
    partial_note = ("LRU eviction beyond the capacity is outside the model and the theorems (the property is "
                    "stated for values within capacity)")

    def gen(self, rng, n, tier):
        return [gen_hot(rng, i, self.flavor) for i in range(n)]

    def line(self, c):
        return HotCase.line(c)

    def coq(self, c):
        return HotCase.coq(c)

    def key(self, c):
        return " ".join(HotCase.line(c).split()[2:])

    def shrink_candidates(self, c):
        return HotCase.shrink(c)

    def nontrivial(self, c, obs):
        return sum(1 for o in c["ops"] if o[0] == "B" and (o[2] or o[3])) >= 3

    def stats(self, cases, obs):
        st = {"builds": 0, "admitted": 0, "blocked": 0, "exits": 0, "advances": 0, "keyed_cases": 0,
              "rules_with_overrides": 0}
        for c, o in zip(cases, obs):
            for op in c["ops"]:
                st["builds"] += op[0] == "B"
                st["exits"] += op[0] == "X"
                st["advances"] += op[0] == "A"
            st["keyed_cases"] += any(r["key"] for r in c["rules"])
            st["rules_with_overrides"] += sum(1 for r in c["rules"] if r["spec"])
        return st
