from props.c04 import C04


class C05(C04):
    id = "C05"
    props_file = "Props/C05.v"
    props_module = "Props.C05"
    coq_imports = ("From SV Require Import Model.Base Model.LeapArray Model.World Run.Common Run.RunWorld Run.RunC01.\n"
                   "Open Scope N_scope.")
    spec_fn = "spec_c05"
    flavor = "iso"
    counts = {"quick": 1200, "thorough": 24000}
    rule = ("1-3 fresh resources, each with 1-3 isolation rules (thresholds 1..10, a few invalid 0, equal "
            "rules under different ids), batch 1..6, up to ~10 simultaneously open entries exited in random "
            "order, clock steps; non-trivial = at least two builds and one exit; distinct = distinct case text")

    def nontrivial(self, c, obs):
        kinds = [o[0] for o in c["ops"]]
        return kinds.count("B") >= 2 and "X" in kinds
