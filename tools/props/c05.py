from props.c04 import C04
from props.c06 import C06


class C05Iso(C04):
    id = "C05"
    props_file = "Props/C05.v"
    props_module = "Props.C05"
    coq_imports = ("From SV Require Import Model.Base Model.LeapArray Model.World Run.Common Run.RunWorld Run.RunC01.\n"
                   "Open Scope N_scope.")
    spec_fn = "spec_c05"
    flavor = "iso"
    counts = {"quick": 1000, "thorough": 20000}
    rule = ("isolation: 1-3 fresh resources, each with 1-3 isolation rules (thresholds 1..10, a few invalid 0, "
            "equal rules under different ids), batch 1..6, up to ~10 simultaneously open entries exited in "
            "random order, clock steps; non-trivial = at least two builds and one exit")

    def nontrivial(self, c, obs):
        kinds = [o[0] for o in c["ops"]]
        return kinds.count("B") >= 2 and "X" in kinds


class C05Hot(C06):
    id = "C05"
    props_file = "Props/C05.v"
    props_module = "Props.C05"
    coq_imports = ("From SV Require Import Model.Base Model.Hotspot Run.Common Run.RunHot Run.RunC05h.\n"
                   "Open Scope N_scope.")
    spec_fn = "spec_c05h"
    flavor = "conc"
    counts = {"quick": 1000, "thorough": 20000}
    rule = ("hotspot concurrency: a fresh resource with 1-3 hotspot concurrency rules (threshold 1..8, per-value "
            "overrides, positional parameters incl. negative / out-of-range indices, keyed attachments, "
            "missing parameters), 1-4 parameter values, batch 1..12, entries exited in random order; the Spec "
            "is evaluated on the single-rule cases, all cases are compared with the model; non-trivial = at "
            "least 3 builds with an extractable value")


class C05(C05Iso):
    """C05 is served by two case families."""

    def parts(self):
        return [C05Iso(), C05Hot()]
