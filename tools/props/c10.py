from runner import PropBase
from props.mgrgen import MgrCase, gen_mgr


class C10(PropBase):
    id = "C10"
    harness = "mgr"
    props_file = "Props/C10.v"
    props_module = "Props.C10"
    coq_imports = ("From SV Require Import Model.Base Model.Manager Run.Common Run.RunMgr Run.RunC10.\n"
                   "Open Scope N_scope.")
    case_type = "mcase"
    agree_fn = "agree"
    spec_fn = "spec_c10"
    counts = {"quick": 1500, "thorough": 30000}
    rule = ("flow, hotspot, circuit-breaker and isolation managers (system rules are global and not per resource: "
            "not exercised here); pools of valid, invalid (negative threshold / zero duration / zero retry / zero "
            "threshold / empty resource name) and duplicate-but-differently-identified rules over 2-3 resources; "
            "sequences of 4-12 operations over load-all, load-for-resource (incl. empty name, empty list, a rule "
            "of another resource slipped in for flow/hotspot), append, clear, clear-for-resource; after every "
            "operation get_rules, get_rules_of_resource and the rules of the controllers/breakers actually "
            "consulted, for every resource; rule sets compared under rule equality, return values asserted for "
            "calls without equal-but-differently-identified rules; non-trivial = at least one append and one "
            "load; distinct = distinct case text")
    assumptions = ["rule fields are derived from an abstract (resource, key) pair: key determines every compared "
                   "field, validity (key % 5 != 0) and the statistic-reuse class (key % 2)",
                   "for circuit-breaker and isolation load_rules_of_resource, rules naming another resource are "
                   "not generated (the implementation files them under the call's resource; see DESIGN)"]
    trusted_extra = ["std HashSet/HashMap (iteration order free, an Eq-equal element under another id may be kept "
                     "once or twice: comparisons are on sets under rule equality)"]

    def gen(self, rng, n, tier):
        return [gen_mgr(rng, i) for i in range(n)]

    def line(self, c):
        return MgrCase.line(c)

    def coq(self, c):
        return MgrCase.coq(c)

    def key(self, c):
        return " ".join(MgrCase.line(c).split()[1:])

    def shrink_candidates(self, c):
        return MgrCase.shrink(c)

    def nontrivial(self, c, obs):
        kinds = [o[0] for o in c["ops"]]
        return "P" in kinds and ("L" in kinds or "R" in kinds)

    def stats(self, cases, obs):
        st = {"by_family": {}, "loads": 0, "appends": 0, "clears": 0}
        for c in cases:
            st["by_family"][str(c["family"])] = st["by_family"].get(str(c["family"]), 0) + 1
            for o in c["ops"]:
                st["loads"] += o[0] in ("L", "R")
                st["appends"] += o[0] == "P"
                st["clears"] += o[0] in ("C", "K")
        return st
