"""System-protection cases (C09)."""
import struct

BASE0 = 1_700_000_000_000
MET = ["MLoad", "MAvgRT", "MConc", "MQps", "MCpu"]


def f64_bits(x):
    return struct.unpack("<Q", struct.pack("<d", x))[0]


class SysCase:
    @staticmethod
    def line(c):
        toks = [c["base"], len(c["rules"])]
        for r in c["rules"]:
            toks += [r[0], r[1], r[2], f64_bits(r[3])]
        for o in c["ops"]:
            if o[0] in ("L", "C"):
                toks += [o[0], f64_bits(o[1])]
            else:
                toks += o
        return " ".join(str(x) for x in toks)

    @staticmethod
    def coq(c):
        rs = "; ".join("(%d, %s, %s, %d%%Z)" % (r[0], MET[r[1]], "true" if r[2] else "false", f64_bits(r[3])) for r in c["rules"])
        ops = []
        for o in c["ops"]:
            k = o[0]
            if k == "B":
                ops.append("SB %d %d %s" % (o[1], o[2], "true" if o[3] else "false"))
            elif k == "X":
                ops.append("SX %d" % o[1])
            elif k == "A":
                ops.append("SA %d" % o[1])
            elif k == "L":
                ops.append("SLoad (f64_of_bits %d)" % f64_bits(o[1]))
            else:
                ops.append("SCpu (f64_of_bits %d)" % f64_bits(o[1]))
        return "mkSCase %d [%s] [%s]" % (c["base"], rs, "; ".join(ops))

    @staticmethod
    def shrink(c):
        res = []
        for i in range(len(c["ops"])):
            d = dict(c)
            d["ops"] = c["ops"][:i] + c["ops"][i + 1:]
            res.append(d)
        if len(c["rules"]) > 1:
            for i in range(len(c["rules"])):
                d = dict(c)
                d["rules"] = c["rules"][:i] + c["rules"][i + 1:]
                res.append(d)
        return res


def gen_sys(rng, idx):
    nr = rng.pick([1, 1, 1, 2, 2, 3])
    rules = []
    used = set()
    for i in range(nr):
        m = rng.pick([0, 1, 2, 3, 4])
        bbr = rng.pick([0, 1]) if m in (0, 4) else rng.pick([0, 0, 1])
        if m == 0:
            thr = rng.pick([0.0, 0.25, 0.5, 0.75, 1.0])
        elif m == 4:
            thr = rng.pick([0.0, 25.0, 50.0, 50.25, 100.0])
        elif m == 1:
            thr = rng.pick([0.0, 5.0, 10.0, 10.5, 50.0, 100.0, 33.0])
        elif m == 2:
            thr = rng.pick([0.0, 1.0, 2.0, 2.5, 3.0, 5.0])
        else:
            thr = rng.pick([0.0, 1.0, 2.0, 3.0, 5.0, 10.0, 4.5])
        if rng.chance(0.05):
            thr = rng.pick([-1.0, 101.0, float("nan")])
        if (m, bbr, thr) in used:
            continue
        used.add((m, bbr, thr))
        rules.append([i + 1, m, bbr, thr])
    ops = []
    open_ids = []
    eid = 0
    for _ in range(rng.randint(8, 45)):
        x = rng.random()
        if x < 0.4:
            eid += 1
            ops.append(["B", eid, rng.pick([1, 1, 1, 2, 3]), 1 if rng.chance(0.85) else 0])
            open_ids.append(eid)
        elif x < 0.62 and open_ids:
            ops.append(["X", open_ids.pop(rng.randrange(len(open_ids)))])
        elif x < 0.8:
            ops.append(["A", rng.pick([0, 1, 5, 10, 11, 33, 50, 100, 499, 500, 501, 999, 1000, 1001, 2500])])
        elif x < 0.9:
            ops.append(["L", rng.pick([0.0, 0.25, 0.5, 0.75, 1.0, 0.5000001, 2.0, 0.26])])
        else:
            ops.append(["C", rng.pick([0.0, 25.0, 50.0, 50.25, 50.5, 75.0, 100.0, 26.0])])
    return {"base": BASE0 + rng.pick([0, 1, 499, 500]), "rules": rules, "ops": ops}
