import math
import struct

from runner import PropBase
from props.rulegen import gen_rule, f64_bits


def b(x):
    return "true" if x else "false"


def fbits(x):
    return "(f64_of_bits %d)" % f64_bits(x)


class C12(PropBase):
    id = "C12"
    harness = "c12"
    per_process = True
    props_file = "Props/C12.v"
    props_module = "Props.C12"
    coq_imports = ("From SV Require Import Model.Base Model.F64 Model.Rules Run.Common Run.RunC12.\n"
                   "Open Scope N_scope.")
    case_type = "c12case"
    agree_fn = "agree"
    spec_fn = "spec_c12"
    counts = {"quick": 1200, "thorough": 24000}
    rule = ("one harness process per case (poisoning is global): a rule of any of the five families from the cross "
            "product of its enum fields (strategies, relation to another resource incl. one never seen, metric "
            "types) with boundary numerics inside the documented range and out-of-range / invalid values (negative, "
            "NaN, inf, zero duration / interval / retry, empty and unicode resource names), offered through "
            "load-all, load-for-resource or append; then four entries (inbound/outbound, batch 1 and 0..1e6, no / "
            "short / long / keyed arguments, one with a recorded error, one with the empty resource name) are built "
            "and exited on the virtual clock, and every manager is probed on an unrelated resource (append, get, "
            "load-for-resource); observed: validity verdict, answer of the loading call, whether the rule is "
            "listed, number of panics, number of failed probes; non-trivial = valid rule; distinct = distinct case text")
    assumptions = ["MemoryAdaptive high-water marks are generated tiny or beyond any machine so that the verdict does "
                   "not depend on the machine's memory size"]
    trusted_extra = ["IEEE comparison semantics of Flocq for the f64 threshold tests"]

    def gen(self, rng, n, tier):
        cases = []
        for i in range(n):
            fam = rng.pick([0, 0, 0, 1, 1, 2, 2, 3, 4])
            r = gen_rule(rng, fam)
            cases.append({"tag": str(i), "entry": rng.pick([0, 1, 2]), "batch": rng.pick([0, 1, 2, 1000, 10 ** 6]),
                          "shape": rng.pick([0, 1, 2, 3]), "r": r})
        return cases

    def line(self, c):
        return " ".join(str(x) for x in [c["tag"], c["entry"], c["batch"], c["shape"]] + c["r"]["toks"])

    def key(self, c):
        return " ".join(self.line(c).split()[1:])

    def coq(self, c):
        r = c["r"]
        f = r["family"]
        if f == 0:
            t = "RFlow (mkFR %s %d %d %s %s %s %d %d %d %d %d %d %d %d)" % (
                b(r["res"] == 0), r["calc"], r["ctrl"], b(r["rel"] == 1), b(r["ref"] == 0), fbits(r["thr"]), r["warm"],
                r["cold"], r["maxq"], r["stat"], r["lowmem"], r["highmem"], r["lowwater"], r["highwater"])
        elif f == 1:
            t = "RHot (mkHotR %s %s (%d)%%Z %s %d)" % (b(r["res"] == 0), b(r["metric"] == 1), r["idx"], b(r["key"] != 0), r["dur"])
        elif f == 2:
            t = "RCb (mkCbR %s %d %d %d %s)" % (b(r["res"] == 0), r["strategy"], r["retry"], r["interval"], fbits(r["thr"]))
        elif f == 3:
            t = "RIso (mkIsoR %s %d)" % (b(r["res"] == 0), r["thr"])
        else:
            t = "RSys (mkSysR %d %s)" % (r["metric"], fbits(r["thr"]))
        return "mkC12 %d (%s)" % (c["entry"], t)

    def nontrivial(self, c, obs):
        return bool(obs) and obs[0] == 1

    def stats(self, cases, obs):
        st = {"valid": 0, "invalid": 0, "by_family": {}, "by_entry": {}}
        for c, o in zip(cases, obs):
            if o:
                st["valid" if o[0] == 1 else "invalid"] += 1
            st["by_family"][str(c["r"]["family"])] = st["by_family"].get(str(c["r"]["family"]), 0) + 1
            st["by_entry"][str(c["entry"])] = st["by_entry"].get(str(c["entry"]), 0) + 1
        return st
