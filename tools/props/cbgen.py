"""Circuit-breaker cases (C03)."""
import struct

BASE0 = 1_700_000_000_000
STRAT = ["SlowRatio", "ErrRatio", "ErrCount"]


def f64_bits(x):
    return struct.unpack("<Q", struct.pack("<d", x))[0]


class CbCase:
    @staticmethod
    def line(c):
        toks = [c["tag"], c["base"], len(c["rules"])]
        for r in c["rules"]:
            toks += [r["id"], r["strategy"], r["retry"], r["min_req"], r["interval"], r["buckets"], r["max_rt"],
                     f64_bits(r["thr"])]
        for o in c["ops"]:
            toks += o
        return " ".join(str(x) for x in toks)

    @staticmethod
    def coq(c):
        rs = "; ".join("(%d, %s, %d, %d, %d, %d, %d, %d%%Z)" % (
            r["id"], STRAT[r["strategy"]], r["retry"], r["min_req"], r["interval"], r["buckets"], r["max_rt"],
            f64_bits(r["thr"])) for r in c["rules"])
        ops = []
        for o in c["ops"]:
            if o[0] == "B":
                ops.append("BB %d %s" % (o[1], "true" if o[2] else "false"))
            elif o[0] == "X":
                ops.append("BX %d %s" % (o[1], "true" if o[2] else "false"))
            else:
                ops.append("BA %d" % o[1])
        return "mkBCase %d [%s] [%s]" % (c["base"], rs, "; ".join(ops))

    @staticmethod
    def shrink(c):
        res = []
        for i in range(len(c["ops"])):
            d = dict(c)
            d["ops"] = c["ops"][:i] + c["ops"][i + 1:]
            res.append(d)
        if len(c["rules"]) > 1:
            for i in range(len(c["rules"])):
                d = dict(c)
                d["rules"] = c["rules"][:i] + c["rules"][i + 1:]
                res.append(d)
        return res


def gen_cb(rng, idx):
    nr = rng.pick([1, 1, 1, 2, 2])
    rules = []
    for i in range(nr):
        strategy = rng.pick([0, 1, 2])
        interval = rng.pick([1000, 1000, 2000, 500, 10000, 600])
        buckets = rng.pick([0, 1, 1, 2, 4, 5, 3, 10])
        if strategy == 2:
            thr = rng.pick([1.0, 2.0, 3.0, 2.5, 0.0, 0.5, 5.0])
        else:
            thr = rng.pick([0.5, 0.5, 1.0, 0.0, 0.25, 0.34, 1.0 / 3.0, 0.75, 0.1])
        r = {"id": i + 1, "strategy": strategy, "retry": rng.pick([100, 500, 1000, 3000, interval // 2, 2 * interval]),
             "min_req": rng.pick([0, 1, 2, 3, 4]), "interval": interval, "buckets": buckets,
             "max_rt": rng.pick([10, 50, 100, 0]), "thr": thr}
        if any(all(x[k] == r[k] for k in r if k != "id") for x in rules):
            r["min_req"] += 5
        rules.append(r)
    ops = []
    open_ids = []
    eid = 0
    steps = [0, 0, 1, 5, 9, 10, 11, 49, 50, 51, 100, 101]
    for r in rules:
        b = r["buckets"] if r["buckets"] and r["interval"] % r["buckets"] == 0 else 1
        bl = r["interval"] // b
        steps += [bl - 1, bl, bl + 1, r["interval"] // 2, r["interval"] - 1, r["interval"], r["interval"] + 1,
                  r["retry"] - 1, r["retry"], r["retry"] + 1, 2 * r["interval"] + 3]
    steps = [s for s in steps if s >= 0]
    for _ in range(rng.randint(8, 45)):
        x = rng.random()
        if x < 0.4:
            eid += 1
            ops.append(["B", eid, 1 if rng.chance(0.1) else 0])
            open_ids.append(eid)
        elif x < 0.72 and open_ids:
            i = rng.randrange(len(open_ids)) if rng.chance(0.5) else 0
            ops.append(["X", open_ids.pop(i), 1 if rng.chance(0.45) else 0])
        else:
            dt = rng.pick(steps)
            if rng.chance(0.1):
                dt = rng.randint(0, 3000)
            ops.append(["A", dt])
    base = BASE0 + idx * 1_000_000 + rng.pick([0, 0, 1, 250, 500, 999])
    return {"tag": "%d" % idx, "base": base, "rules": rules, "ops": ops}
