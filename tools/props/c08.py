import struct

from runner import PropBase


def bits(x):
    return struct.unpack(">q", struct.pack(">d", float(x)))[0]


def f_of_bits(b):
    return struct.unpack(">d", struct.pack(">q", b))[0]


def gen_case(rng, i):
    q = rng.pick([3, 5, 10, 10, 20, 30, 50, 100, 7.5, 12.25, 64, 1000, 1.5, 1e19] if i % 11 == 5 else [3, 5, 10, 10, 20, 30, 50, 100, 7.5, 12.25, 64, 1000])
    cold = rng.pick([0, 0, 2, 3, 3, 4, 5, 10])
    period = rng.pick([1, 2, 3, 5, 10])
    if i == 0:
        q, cold, period = 3, 5, 1          # the recorded finding: threshold / cold factor below one request
    if i == 1:
        q, cold, period = 1e19, 3, 5       # the recorded finding: token range saturated
    if i == 2:
        q, cold, period = 10, 0, 2         # the default cold factor, saturating demand
    base = 1_700_000_000_000 + rng.randrange(0, 1000) * 1000 + rng.pick([0, 0, 1, 250, 499, 500, 999])
    ops = []
    sat = False
    style = rng.randrange(8) if i > 2 else (0 if i in (0, 2) else 3)
    style = style if style < 2 else 2 + style % 2
    ceff = 3 if cold <= 1 else cold
    if style == 0 and (q > 20 or (period > 5 and i % 4)):
        style = 2
    if style == 0:
        # saturating demand (single requests) from the start: every 100/250/500 ms ask for more than q; read once per second
        sat = True
        step = rng.pick([250, 500, 500])
        burst = int(q) + 2
        secs = 2 * period + rng.pick([3, 4, 6])
        t = 0
        while t < secs * 1000:
            if t % 1000 == 0:
                ops.append(("T",))
            for _ in range(burst):
                ops.append(("B", 1))
            ops.append(("A", step))
            t += step
        ops.append(("T",))
    elif style == 1:
        # ramp up, go idle, come back
        step = 500
        burst = min(int(q) + 2, 14)
        for _ in range(rng.pick([2, 4, 2 * period + 3]) * 2):
            for _ in range(burst):
                ops.append(("B", 1 if q <= 12 else min(1000, max(1, int(q // 10)))))
            ops.append(("A", step))
            if rng.chance(0.3):
                ops.append(("T",))
        ops.append(("T",))
        ops.append(("A", rng.pick([2 * period * 1000 + 1000, max(2 * period, 2) * 1000 + 1500, period * 1000, 500, 3000])))
        ops.append(("T",))
        for _ in range(burst):
            ops.append(("B", 1))
        ops.append(("T",))
    else:
        ops.append(("T",)) if rng.chance(0.5) else None
        for _ in range(rng.pick([10, 25, 50])):
            r = rng.random()
            if r < 0.6:
                ops.append(("B", rng.pick([1, 1, 1, 2, 3, min(1000, max(1, int(q // 2)))])))
            elif r < 0.85:
                ops.append(("A", rng.pick([1, 10, 100, 250, 499, 500, 501, 1000, 1500, 3000, 2 * period * 1000 + 2000])))
            else:
                ops.append(("T",))
    ops = [o for o in ops if o]
    return {"tag": "%d" % i, "base": base, "thr": bits(q), "cold": cold, "period": period, "sat": sat, "ops": ops}


class C08(PropBase):
    id = "C08"
    harness = "wu"
    props_file = "Props/C08.v"
    props_module = "Props.C08"
    coq_imports = ("From SV Require Import Model.Base Model.F64 Model.LeapArray Model.World Model.WarmUp Spec.C08Spec Run.Common Run.RunWu.\n"
                   "Open Scope N_scope.")
    case_type = "wcase"
    agree_fn = "agree"
    spec_fn = "spec_c08"
    counts = {"quick": 240, "thorough": 5000}
    rule = ("one warm-up reject flow rule per case (threshold 3-1000 incl. non-integers, cold factor 0-10 where <= 1 means the "
            "default 3, warm-up period 1-10 s, default 1 s statistic) on its own resource; histories: saturating demand from a "
            "cold start with one calculator reading per second for 2p+3..2p+6 s; ramp-up, idle period around 2p s, return; random "
            "mixes of builds (batch 1..q/2), clock advances around bucket / second / 2p boundaries and calculator readings; "
            "compared bit-for-bit: every allowed threshold read through Controller::get_calculator(), every admission, the count "
            "carried by every rejection; non-trivial = at least one rejection and one reading; distinct = distinct case text")
    assumptions = ["virtual clock (hook) instead of the OS clock", "sequential histories (one thread)"]
    trusted_extra = ["f64 arithmetic as formalised by Flocq equals the CPU's (compared bit-for-bit on every reading)"]
    partial_note = ("the token-bucket facts are theorems for every history (tokens never exceed the maximum; the allowed "
                    "threshold is the rule's threshold exactly when the tokens are below the warning line, and depends only "
                    "on the tokens; a long enough idle period refills to the maximum); the numeric clauses of the property "
                    "(allowed threshold between about q/c and q, monotone ramp, q reached within 2p+2 s) are evaluated on "
                    "every generated trace of the model and of the implementation, not proved for all inputs: they depend on "
                    "rounding behaviour of a chain of binary64 operations")

    def classify(self, c, obs):
        """the recorded findings: degenerate token ranges (threshold / cold factor < 1, or period * threshold beyond u64).
        Only when the per-interval bound itself holds on the trace (recomputed here) and nothing panicked."""
        q = f_of_bits(c["thr"])
        ceff = 3 if c["cold"] <= 1 else c["cold"]
        if not obs or obs[0] != 1 or -1 in obs:
            return None
        if q / ceff < 1:
            cls = "cold-allowance-below-one-request"
        elif c["period"] * q / (ceff - 1) >= 2.0 ** 64:
            cls = "token-range-saturated"
        else:
            return None
        # never more than q per (bucket-aligned) statistic window
        t = c["base"]
        adm = []
        i = 1
        for op in c["ops"]:
            if i >= len(obs):
                return None
            if op[0] == "B":
                if obs[i] == 1:
                    lo = (t - t % 500) - 500
                    tot = sum(b for (tt, b) in adm if tt >= lo) + op[1]
                    if tot > q * (1 + 2.0 ** -30):
                        return None
                    adm.append((t, op[1]))
                    i += 1
                else:
                    i += 2
            elif op[0] == "A":
                t += op[1]
                i += 1
            else:
                a = f_of_bits(obs[i + 1]) if obs[i + 1] < 2 ** 63 else float("nan")
                if not (a <= q * (1 + 2.0 ** -30)):
                    return None
                i += 2
        return cls

    def gen(self, rng, n, tier):
        return [gen_case(rng, i) for i in range(n)]

    def line(self, c):
        toks = [c["tag"], c["base"], c["thr"], c["cold"], c["period"]]
        for o in c["ops"]:
            toks += list(o)
        return " ".join(str(x) for x in toks)

    def key(self, c):
        return self.line(dict(c, tag="x"))

    def coq(self, c):
        ops = "[" + "; ".join("WB %d" % o[1] if o[0] == "B" else ("WA %d" % o[1] if o[0] == "A" else "WT") for o in c["ops"]) + "]"
        return "mkWCase %d (%d)%%Z %d %d %s %s" % (c["base"], c["thr"], c["cold"], c["period"], "true" if c["sat"] else "false", ops)

    def shrink_candidates(self, c):
        out = []
        ops = c["ops"]
        if c["sat"]:
            return [dict(c, ops=ops[:len(ops) * 3 // 4])] if len(ops) > 8 else []
        for k in (len(ops) // 2, len(ops) - 1):
            if 0 < k < len(ops):
                out.append(dict(c, ops=ops[:k]))
        for i in range(min(len(ops), 40)):
            out.append(dict(c, ops=ops[:i] + ops[i + 1:]))
        return out

    def nontrivial(self, c, obs):
        return bool(obs) and 0 in obs[1:] and 4 in obs[1:]

    def stats(self, cases, obs):
        st = {"saturating": 0, "ops": 0, "admitted": 0, "blocked": 0, "readings": 0}
        for c, o in zip(cases, obs):
            st["saturating"] += 1 if c["sat"] else 0
            st["ops"] += len(c["ops"])
            if o:
                i = 1
                for op in c["ops"]:
                    if i >= len(o):
                        break
                    if op[0] == "B":
                        if o[i] == 1:
                            st["admitted"] += 1
                            i += 1
                        else:
                            st["blocked"] += 1
                            i += 2
                    elif op[0] == "A":
                        i += 1
                    else:
                        st["readings"] += 1
                        i += 2
        return st
