from runner import PropBase

BUCKET = 500


def gen_free(rng, i):
    """no forced schedule: 3-4 threads run long programs freely in parallel, the clock frozen inside one bucket"""
    nt = rng.pick([3, 4])
    mode = rng.pick([1, 2])
    base = 1_700_000_000_000 + rng.randrange(0, 100000) * BUCKET + rng.randrange(50, 450)
    progs = []
    for t in range(nt):
        ops = []
        inb = 1 if rng.chance(0.5) else 0
        for _ in range(rng.pick([60, 120])):
            ops.append(("B", rng.pick([0, 1, 1, 2]), inb))
            ops.append(("X",))
        if rng.chance(0.5):
            ops.append(("B", 1, inb))
        progs.append(ops)
    return {"base": base, "mode": mode, "progs": progs, "steps": [], "free": True}


def gen_lap(rng, i):
    """activity with non-zero round trips, then exactly one or two ring laps (10 s) later activity in the same slots"""
    base = 1_700_000_000_000 + rng.randrange(0, 100000) * BUCKET + rng.randrange(0, 400)
    inb = 1 if rng.chance(0.5) else 0
    progs = [[("B", rng.pick([1, 2]), inb), ("X",)], [("B", 1, inb), ("X",), ("B", 1, inb), ("X",)]]
    rt = rng.pick([3, 7, 40])
    lap = rng.pick([10000, 10000, 20000])
    # thread 0: build, wait rt, exit; one lap later thread 1 does the same twice
    steps = [(0, 0)] * 6 + [(0, rt)] + [(0, 0)] * 12
    steps += [(1, lap - rt)] + [(1, 0)] * 5 + [(1, rt)] + [(1, 0)] * 12 + [(1, 0)] * 6 + [(1, 1)] + [(1, 0)] * 12
    return {"base": base, "mode": rng.pick([1, 2]), "progs": progs, "steps": steps, "free": False}


def gen_case(rng, i):
    if i % 10 == 7:
        return gen_free(rng, i)
    if i % 10 == 3:
        return gen_lap(rng, i)
    nt = rng.pick([2, 2, 2, 3, 3, 4])
    mode = rng.pick([0, 1, 1, 1, 2, 2])
    # base near the start, the middle or the end of a 500 ms bucket
    base = 1_700_000_000_000 + rng.randrange(0, 100000) * BUCKET
    where = rng.randrange(4)
    if where == 0:
        base += rng.randrange(0, 3)
    elif where == 1:
        base += BUCKET - 1 - rng.randrange(0, 3)
    else:
        base += rng.randrange(0, BUCKET)
    progs = []
    for t in range(nt):
        k = rng.pick([1, 1, 2, 2, 3, 4])
        ops = []
        opened = 0
        for _ in range(k):
            if opened > 0 and rng.chance(0.45):
                ops.append(("X",))
                opened -= 1
            else:
                ops.append(("B", rng.pick([1, 1, 1, 2, 3, 7, 0]), 1 if rng.chance(0.4) else 0))
                opened += 1
        if rng.chance(0.1):
            ops.append(("X",))
        progs.append(ops)
    # schedule
    style = rng.randrange(5)
    nsteps = rng.pick([0, 6, 15, 30, 60, 90])
    calm = rng.chance(0.5)
    steps = []
    cur = 0
    for s in range(nsteps):
        if style == 0:
            tid = s % nt
        elif style == 1:
            tid = rng.randrange(nt)
        elif style == 2:
            # runs of one thread
            if rng.chance(0.3):
                cur = rng.randrange(nt)
            tid = cur
        elif style == 3:
            tid = rng.randrange(nt + 1)          # sometimes a thread that does not exist
        else:
            tid = rng.pick([0, 0, 1, 1, 1, nt - 1])
        if calm:
            dt = 0 if rng.chance(0.8) else rng.randrange(0, 3)
        else:
            r = rng.random()
            if r < 0.6:
                dt = 0
            elif r < 0.8:
                dt = rng.randrange(1, 40)
            elif r < 0.93:
                dt = rng.pick([BUCKET - 1, BUCKET, BUCKET + 1, 250, 499, 501])
            elif r < 0.98:
                dt = rng.pick([1000, 1500, 2000, 9500, 10000, 10500])
            else:
                dt = rng.pick([20000, 60000])
        steps.append((tid, dt))
    return {"base": base, "mode": mode, "progs": progs, "steps": steps, "free": False}


class C14FirstTouch(PropBase):
    """many rounds of simultaneous first touches of brand-new resources by real threads (no forced schedule)"""
    id = "C14"
    harness = "ft"
    per_process = True
    props_file = "Props/C14.v"
    props_module = "Props.C14"
    coq_imports = ("From SV Require Import Model.Base Model.LeapArray Model.World Model.Conc Spec.C14Spec Run.Common Run.RunConc.\n"
                   "Open Scope N_scope.")
    case_type = "ftcase"
    agree_fn = "agree_ft"
    spec_fn = "spec_ft"
    counts = {"quick": 16, "thorough": 64}
    rule = ("one process per case: 2-4 real threads, 300-600 rounds; in every round all threads build and exit one entry on a "
            "brand-new resource at the same moment (barrier); after the round the node the map holds must be the node every "
            "thread got, with in-flight 0 and pass = complete = number of threads; non-trivial = every case")
    assumptions = []
    trusted_extra = []
    partial_note = ""

    def gen(self, rng, n, tier):
        return [{"nt": rng.pick([2, 3, 3, 4]), "rounds": rng.pick([300, 600]), "k": i} for i in range(n)]

    def line(self, c):
        return "%d %d" % (c["nt"], c["rounds"])

    def key(self, c):
        return "%d %d %d" % (c["nt"], c["rounds"], c["k"])

    def coq(self, c):
        return "mkFT %d %d" % (c["nt"], c["rounds"])

    def stats(self, cases, obs):
        return {"rounds": sum(c["rounds"] for c in cases)}


class C14(PropBase):
    id = "C14"
    harness = "conc"
    per_process = True
    props_file = "Props/C14.v"
    props_module = "Props.C14"
    coq_imports = ("From SV Require Import Model.Base Model.LeapArray Model.World Model.Conc Spec.C14Spec Run.Common Run.RunConc.\n"
                   "Open Scope N_scope.")
    case_type = "ccase"
    agree_fn = "agree"
    spec_fn = "spec_c14"
    counts = {"quick": 500, "thorough": 10000}
    rule = ("one harness process per case: 2-4 real threads build and exit entries (batch 1-7, inbound or not) on one "
            "resource (brand new / used 60 s earlier / used in the current bucket) under a forced interleaving of the "
            "library's scheduling points (node-map miss, bucket lookup, inside reset_bucket, counter add, concurrency "
            "inc/dec) given as 0-90 (thread, clock advance) steps: round robin, random, runs, skewed; clock advances of "
            "0, a few ms, around one bucket, around the window and beyond; compared: the whole point trace, the node "
            "each entry holds, every exit's round trip, final in-flight count and pass/complete/rt totals of the "
            "resource node and the inbound node; every tenth case instead lets 3-4 real threads run 60-120 build/exit pairs each "
            "freely in parallel with the clock frozen inside one bucket (no forced schedule: only the final readings, which "
            "every schedule must agree on, are compared); batch 0 included; non-trivial = at least two threads interleave (two different threads "
            "appear in the forced part of the trace); distinct = distinct case text")
    assumptions = ["threads are interleaved only at the guarded scheduling points (cooperative scheduler); everything "
                   "between two points runs without interference, which holds because these points lie outside "
                   "lock-held regions and all other shared accesses between them are single atomic operations",
                   "virtual clock (hook) instead of the OS clock"]
    trusted_extra = ["the cooperative scheduler of the harness (harness/src/sched.rs) and the placement of the scheduling "
                     "points: an interleaving finer than the points is not explored on the implementation"]
    partial_note = ("interleavings are those of the model's micro-steps; the theorems quantify over every schedule of them. "
                    "Preemption inside a micro-step (between two atomic operations that the model executes together, e.g. "
                    "the stamp test and the stamp store of one bucket lookup) is not modelled; memory-ordering effects "
                    "below SeqCst are not modelled")

    def parts(self):
        return [self, C14FirstTouch()]

    def gen(self, rng, n, tier):
        return [gen_case(rng, i) for i in range(n)]

    def line(self, c):
        toks = [c["base"], c["mode"], len(c["progs"])]
        for p in c["progs"]:
            toks.append(len(p))
            for o in p:
                if o[0] == "B":
                    toks += ["B", o[1], o[2]]
                else:
                    toks.append("X")
        toks.append(len(c["steps"]))
        for tid, dt in c["steps"]:
            toks += [tid, dt]
        if c.get("free"):
            toks.append("F")
        return " ".join(str(x) for x in toks)

    def coq(self, c):
        def prog(p):
            return "[" + "; ".join("TB %d %s" % (o[1], "true" if o[2] else "false") if o[0] == "B" else "TX" for o in p) + "]"
        progs = "[" + "; ".join(prog(p) for p in c["progs"]) + "]"
        steps = "[" + "; ".join("(%d%%nat, %d)" % (t, d) for t, d in c["steps"]) + "]"
        return "mkCCase %d %d %s %s %s" % (c["base"], c["mode"], progs, steps, "true" if c.get("free") else "false")

    def shrink_candidates(self, c):
        out = []
        st = c["steps"]
        for k in (len(st) // 2, len(st) - 1):
            if 0 <= k < len(st):
                out.append(dict(c, steps=st[:k]))
        for i in range(len(st)):
            out.append(dict(c, steps=st[:i] + st[i + 1:]))
        for t in range(len(c["progs"])):
            p = c["progs"][t]
            if p:
                out.append(dict(c, progs=c["progs"][:t] + [p[:-1]] + c["progs"][t + 1:]))
        for i, (tid, dt) in enumerate(st):
            if dt:
                out.append(dict(c, steps=st[:i] + [(tid, 0)] + st[i + 1:]))
        return out

    def nontrivial(self, c, obs):
        if not obs or len(obs) < 2:
            return False
        if c.get("free"):
            return True
        n = obs[1]
        tids = set()
        for k in range(n):
            tid, p = obs[2 + 2 * k], obs[3 + 2 * k]
            if p != 0:
                tids.add(tid)
        return len(tids) >= 2

    def stats(self, cases, obs):
        st = {"threads": {}, "mode": {}, "steps": 0, "rollover_cases": 0, "mid_reset_points": 0, "miss_points": 0}
        for c, o in zip(cases, obs):
            st["threads"][str(len(c["progs"]))] = st["threads"].get(str(len(c["progs"])), 0) + 1
            st["mode"][str(c["mode"])] = st["mode"].get(str(c["mode"]), 0) + 1
            st["steps"] += len(c["steps"])
            tot = sum(d for _, d in c["steps"])
            if (c["base"] // BUCKET) != ((c["base"] + tot) // BUCKET):
                st["rollover_cases"] += 1
            if o:
                n = o[1]
                for k in range(n):
                    p = o[3 + 2 * k]
                    if p == 3:
                        st["mid_reset_points"] += 1
                    elif p == 1:
                        st["miss_points"] += 1
        return st
