from runner import PropBase

DAY = 86_400_000


def gen_case(rng, i):
    # base: sometimes close before midnight so that a roll-over by date happens
    day0 = 19675 + rng.randrange(0, 300)
    if rng.chance(0.35):
        base = (day0 + 1) * DAY - rng.pick([1500, 2500, 4000, 10_000])
    else:
        base = day0 * DAY + rng.randrange(1, 80_000) * 1000 + rng.pick([0, 0, 1, 250, 999])
    max_size = rng.pick([150, 300, 300, 600, 1200, 100000])
    max_files = rng.pick([1, 2, 3, 3, 5, 8, 100])
    ops = []
    ts = rng.pick([0, 200, 1000, 1000, 2000])
    nid = 1
    nw = rng.pick([1, 2, 4, 8, 14, 25])
    many_rolls = rng.chance(0.15)
    if many_rolls:
        max_size = 100
        max_files = rng.pick([20, 100])
        nw = rng.pick([12, 16, 25])
    last_w = False
    for k in range(nw):
        n = rng.pick([1, 1, 2, 3, 5])
        items = []
        for _ in range(n):
            items.append((rng.randrange(0, 3), nid))
            nid += 1
        ops.append(("W", ts, items))
        last_w = True
        r = rng.random()
        if r < 0.5:
            ts += 1000
        elif r < 0.7:
            ts += rng.pick([0, 1, 500, 999])
        elif r < 0.9:
            ts += rng.pick([2000, 3000, 10_000])
        else:
            ts += rng.pick([DAY, 5000, 60_000]) if rng.chance(0.5) else 1000
        if rng.chance(0.08) and ts >= 3000:
            ops.append(("W", ts - 3000, [(0, nid)]))       # a write for an older second: ignored
            nid += 1
        if rng.chance(0.2):
            ops.append(("D",))
            ops += gen_queries(rng, ts, rng.pick([1, 2]))
            last_w = False
    crash = rng.chance(0.3) and last_w
    if crash:
        ops.append(("X", rng.pick([0, 1, 7, 8, 15, 16, 17, 20, 40, 41, 60, 80, 100, 130, 200])))
    ops.append(("D",))
    ops += gen_queries(rng, ts, rng.pick([2, 3, 5]))
    return {"base": base, "max_size": max_size, "max_files": max_files, "ops": ops, "crash": crash}


def gen_queries(rng, ts, n):
    qs = []
    hi = max(ts, 1000)
    for _ in range(n):
        b = rng.pick([0, 0, 1000, 1000, 2000, rng.randrange(0, hi + 2000), hi])
        if rng.chance(0.5):
            e = b + rng.pick([0, 999, 1000, 3000, 20_000, DAY + 100_000])
            qs.append(("S", b, e, rng.pick([9, 9, 0, 1, 2, 5])))
        else:
            qs.append(("M", b, rng.pick([1, 1, 2, 3, 5, 10, 1000])))
    return qs


class C19(PropBase):
    id = "C19"
    harness = "mlog"
    per_process = True
    props_file = "Props/C19.v"
    props_module = "Props.C19"
    coq_imports = ("From SV Require Import Model.Base Model.MetricLine Model.MetricLog Spec.C19Spec Run.Common Run.RunMlog.\n"
                   "Open Scope N_scope.")
    case_type = "mlcase"
    agree_fn = "agree"
    spec_fn = "spec_c19"
    counts = {"quick": 400, "thorough": 6000}
    rule = ("one harness process per case (the writer takes its directory from the global configuration; a fresh temporary "
            "directory): a writer created on the virtual clock (35% a few seconds before midnight UTC) with a single-file limit "
            "of 100 bytes..100 kB and 1..100 retained files; 1-25 writes of 1-5 items over 3 resources at increasing "
            "timestamps (same second, next second, gaps, next day, and now and then an older second), 15% of the cases with "
            "12-25 size roll-overs on one day; directory dumps (every file with its index entries and parsed lines) and "
            "searches by time range and resource and from a time with a line limit, each with a fresh searcher; in 30% of "
            "the cases a crash during the last write: the files are cut back to the first k bytes that write issued (index "
            "entry first, then the lines); compared: every return code, every dump, every search result; non-trivial = at "
            "least two files exist at some dump or a crash was applied; distinct = distinct case text")
    assumptions = ["each search uses a fresh DefaultMetricSearcher: the searcher's cached index position is not exercised",
                   "a crash is emulated after the fact by truncating the files the last write appended to; crashes inside a "
                   "write that creates or removes files are not emulated",
                   "file contents are what std::fs returns after flush() (no page-cache loss model)"]
    trusted_extra = ["the harness's own directory listing and index decoding used for the dumps",
                     "the line codec model of C18 (Model/MetricLine.v), shared"]
    partial_note = ("the theorems cover the writer for every history (index entries point at the first line of their second, "
                    "retention bound) and the torn-tail lemma; search correctness across files and the crash clause are "
                    "evaluated on every generated history of the model and of the implementation")

    def gen(self, rng, n, tier):
        return [gen_case(rng, i) for i in range(n)]

    def line(self, c):
        toks = [c["base"], c["max_size"], c["max_files"]]
        for o in c["ops"]:
            if o[0] == "W":
                toks += ["W", o[1], len(o[2])]
                for r, i in o[2]:
                    toks += [r, i]
            else:
                toks += list(o)
        return " ".join(str(x) for x in toks)

    def coq(self, c):
        def op(o):
            if o[0] == "W":
                return "LW %d [%s]" % (o[1], "; ".join("(%d, %d)" % tuple(x) for x in o[2]))
            if o[0] == "S":
                return "LS %d %d %d" % (o[1], o[2], o[3])
            if o[0] == "M":
                return "LM %d %d" % (o[1], o[2])
            if o[0] == "D":
                return "LD"
            return "LX %d" % o[1]
        return "mkMLCase %d %d %d [%s]" % (c["base"], c["max_size"], c["max_files"], "; ".join(op(o) for o in c["ops"]))

    def shrink_candidates(self, c):
        out = []
        ops = [tuple(o) if not isinstance(o, tuple) else o for o in c["ops"]]
        n = len(ops)
        for k in (n // 2, 3 * n // 4, n - 1):
            if 0 < k < n:
                out.append(dict(c, ops=ops[:k]))
        # drop queries, then dumps that no query follows, then writes (from the front), then single items
        for i in range(n):
            if ops[i][0] in ("S", "M"):
                out.append(dict(c, ops=ops[:i] + ops[i + 1:]))
        for i in range(n):
            if ops[i][0] == "D" and (i + 1 == n or ops[i + 1][0] not in ("S", "M")):
                out.append(dict(c, ops=ops[:i] + ops[i + 1:]))
        for i in range(n):
            if ops[i][0] in ("W", "X"):
                out.append(dict(c, ops=ops[:i] + ops[i + 1:]))
        for i, o in enumerate(ops):
            if o[0] == "W" and len(o[2]) > 1:
                out.append(dict(c, ops=ops[:i] + [("W", o[1], list(o[2])[:-1])] + ops[i + 1:]))
        return out

    def nontrivial(self, c, obs):
        if not obs:
            return False
        return 5 in obs[1:3 + len(c["ops"])] or sum(1 for o in c["ops"] if o[0] == "W") >= 3

    def stats(self, cases, obs):
        st = {"writes": 0, "searches_by_time": 0, "searches_max_lines": 0, "crash_cases": 0, "day_roll_cases": 0, "ops": 0}
        for c in cases:
            st["ops"] += len(c["ops"])
            st["crash_cases"] += 1 if c["crash"] else 0
            days = set()
            for o in c["ops"]:
                if o[0] == "W":
                    st["writes"] += 1
                    days.add((c["base"] + o[1]) // DAY)
                elif o[0] == "S":
                    st["searches_by_time"] += 1
                elif o[0] == "M":
                    st["searches_max_lines"] += 1
            st["day_roll_cases"] += 1 if len(days) > 1 else 0
        return st
