from runner import PropBase

EV = ["Pass", "Block", "Complete", "Error", "Rt"]


def divisors(n):
    return [d for d in range(1, n + 1) if n % d == 0]


class C02(PropBase):
    id = "C02"
    harness = "c02"
    props_file = "Props/C02.v"
    props_module = "Props.C02"
    coq_imports = ("From SV Require Import Model.Base Model.LeapArray Run.Common Run.RunC02.\n"
                   "Open Scope N_scope.")
    case_type = "case2"
    counts = {"quick": 1500, "thorough": 30000}
    rule = ("ring geometry sc in 1..20 x bucket 1..1000 ms (plus refused geometries), 1-3 read windows "
            "(accepted by the reuse check and refused ones), histories of 5-40 writes of the five event "
            "kinds and concurrency updates with boundary-biased non-decreasing times (a minority with a "
            "decreasing step, out of the theorem's scope but still compared with the model), reads "
            "interleaved and after idle gaps; non-trivial = ring accepted and at least one read returned "
            "a non-zero sum; distinct = distinct case text")
    assumptions = ["reads happen at times >= every write and >= one ring interval (the theorem's scope); "
                   "other reads are compared against the model only",
                   "f64 results (avg_rt, qps) compared bit-for-bit against Flocq binary64"]
    trusted_extra = ["hook wrappers sentinel_core::verif::stat::{Ring,Window} around the crate-private "
                     "BucketLeapArray / SlidingWindowMetric"]

    def gen(self, rng, n, tier):
        cases = []
        for _ in range(n):
            cases.append(self.gen_one(rng))
        return cases

    def gen_one(self, rng):
        r = rng.random()
        if r < 0.06:
            # refused or degenerate geometry
            sc = rng.pick([0, 0, 3, 7, 4])
            iv = rng.pick([1000, 10, 100, 9, 0]) if sc else rng.randint(0, 1000)
            if sc and iv % sc == 0 and iv != 0 and rng.chance(0.7):
                iv += 1
        else:
            sc = rng.pick([1, 1, 2, 2, 3, 4, 5, 5, 8, 10, 12, 16, 20, 20, rng.randint(1, 20)])
            bl = rng.pick([1, 2, 3, 10, 50, 100, 200, 250, 500, 500, 1000, rng.randint(1, 1000)])
            iv = sc * bl
        wins = []
        for _ in range(rng.randint(1, 3)):
            if sc and iv and iv % sc == 0 and rng.chance(0.75):
                bl = iv // sc
                # accepted: wiv divides iv, window bucket multiple of bl
                k = rng.pick(divisors(sc))           # wiv = k*bl ... needs iv % wiv == 0
                wiv = k * bl
                cands = [d for d in divisors(k)]     # wsc divides k  => bucket = (k/wsc)*bl
                wsc = rng.pick(cands)
                wins.append([wsc, wiv])
            else:
                wins.append([rng.pick([0, 1, 2, 3, 4, 5, 7]), rng.pick([0, 100, 250, 300, 500, 999, 1000, 2000, max(iv, 1) * 2, max(iv, 1) + 1])])
        ops = []
        if sc == 0 or iv % sc != 0:
            return {"sc": sc, "iv": iv, "wins": wins, "ops": ops}
        bl = max(iv // sc, 1)
        t = rng.pick([iv, iv + bl - 1, 2 * iv, 10 * iv + rng.randint(0, iv), 1700000000000 + rng.randint(0, iv),
                      bl, rng.randint(0, iv)])
        decreasing = rng.chance(0.08)
        nops = rng.randint(5, 40)
        for _ in range(nops):
            gap = rng.pick([0, 0, 0, 1, 1, bl - 1, bl, bl + 1, bl, 2 * bl, iv - bl, iv - 1, iv, iv + 1,
                            iv + bl, 2 * iv, 3 * iv + rng.randint(0, bl), rng.randint(0, bl), rng.randint(0, iv)])
            if rng.chance(0.3):
                # land exactly on a bucket boundary
                t2 = t + gap
                t2 -= t2 % bl
                gap = max(0, t2 - t) if not decreasing else gap
            if decreasing and rng.chance(0.15):
                t = max(0, t - rng.pick([1, bl, iv, rng.randint(0, iv)]))
            else:
                t += gap
            t = max(0, t)
            r = rng.random()
            if r < 0.6:
                ev = rng.randint(0, 4)
                cnt = rng.pick([0, 1, 1, 2, 3, 10, rng.randint(0, 100)]) if ev != 4 else rng.pick([0, 1, 5, 50, 59999, 60000, 60001, rng.randint(0, 2000)])
                ops.append(["W", t, ev, cnt])
            elif r < 0.68:
                ops.append(["C", t, rng.randint(0, 50)])
            else:
                now = t + rng.pick([0, 0, 1, bl - 1, bl, iv - bl, iv - 1, iv, iv + 1, 2 * iv, rng.randint(0, iv)])
                if rng.chance(0.25):
                    now -= now % bl
                    now = max(now, t) if not decreasing else now
                ops.append(["R", max(now, 0)])
        ops.append(["R", max(0, t + rng.pick([0, 1, bl, iv - 1, iv]))])
        return {"sc": sc, "iv": iv, "wins": wins, "ops": ops}

    def line(self, c):
        toks = [c["sc"], c["iv"], len(c["wins"])]
        for w in c["wins"]:
            toks += w
        for o in c["ops"]:
            toks += o
        return " ".join(str(x) for x in toks)

    def coq(self, c):
        ops = []
        for o in c["ops"]:
            if o[0] == "W":
                ops.append("OW %d (WAdd %s %d)" % (o[1], EV[o[2]], o[3]))
            elif o[0] == "C":
                ops.append("OW %d (WConc %d)" % (o[1], o[2]))
            else:
                ops.append("OR %d" % o[1])
        wins = "; ".join("(%d, %d)" % (a, b) for a, b in c["wins"])
        return "mkC2 %d %d [%s] [%s]" % (c["sc"], c["iv"], wins, "; ".join(ops))

    def nontrivial(self, c, obs):
        return len(obs) > 3 and obs[0] == 1 and any(x > 1 for x in obs[1:])

    def shrink_candidates(self, c):
        ops = c["ops"]
        res = []
        for i in range(len(ops)):
            d = dict(c)
            d["ops"] = ops[:i] + ops[i + 1:]
            res.append(d)
        if len(c["wins"]) > 1:
            for i in range(len(c["wins"])):
                d = dict(c)
                d["wins"] = c["wins"][:i] + c["wins"][i + 1:]
                res.append(d)
        return res

    def stats(self, cases, obs):
        st = {"ring_refused": 0, "windows_refused": 0, "windows_accepted": 0, "writes": 0, "reads": 0,
              "writes_refused_past": 0, "cases_with_rollover": 0, "decreasing_time_cases": 0}
        for c, o in zip(cases, obs):
            if not o or o[0] == 0:
                st["ring_refused"] += 1
                continue
            nw = len(c["wins"])
            st["windows_accepted"] += sum(o[1:1 + nw])
            st["windows_refused"] += nw - sum(o[1:1 + nw])
            ts = [x[1] for x in c["ops"] if x[0] != "R"]
            st["writes"] += len(ts)
            st["reads"] += sum(1 for x in c["ops"] if x[0] == "R")
            if ts and max(ts) - min(ts) >= c["iv"]:
                st["cases_with_rollover"] += 1
            if any(b < a for a, b in zip(ts, ts[1:])):
                st["decreasing_time_cases"] += 1
        return st
