"""Case generation / rendering for the hotspot model (C05 hotspot part, C06, C07 hotspot part)."""
BASE0 = 1_700_000_000_000


def opt_list(l):
    return "None" if l is None else "(Some [%s])" % "; ".join(str(x) for x in l)


def opt_pairs(l):
    return "None" if l is None else "(Some [%s])" % "; ".join("(%d, %d)" % (a, b) for a, b in l)


KIND = ["HConc", "HReject", "HThrottle"]


class HotCase:
    """{"tag","base","rules":[{"id","kind","thr","burst","dur","maxq","idx","key","spec":[[v,t]]}],
        "ops":[["B",id,args|None,att|None,batch] | ["X",id] | ["A",dt]]}"""

    @staticmethod
    def line(c):
        toks = [c["tag"], c["base"], len(c["rules"])]
        for r in c["rules"]:
            toks += [r["id"], r["kind"], r["thr"], r["burst"], r["dur"], r["maxq"], r["idx"], r["key"], len(r["spec"])]
            for v, t in r["spec"]:
                toks += [v, t]
        for o in c["ops"]:
            if o[0] == "B":
                toks += ["B", o[1]]
                if o[2] is None:
                    toks.append(-1)
                else:
                    toks += [len(o[2])] + o[2]
                if o[3] is None:
                    toks.append(-1)
                else:
                    toks.append(len(o[3]))
                    for k, v in o[3]:
                        toks += [k, v]
                toks.append(o[4])
            else:
                toks += o
        return " ".join(str(x) for x in toks)

    @staticmethod
    def coq(c):
        rs = []
        for r in c["rules"]:
            rs.append("mkHR %d %s %d %d %d %d (%d)%%Z %d [%s]" % (
                r["id"], KIND[r["kind"]], r["thr"], r["burst"], r["dur"], r["maxq"], r["idx"], r["key"],
                "; ".join("(%d, %d)" % (v, t) for v, t in r["spec"])))
        ops = []
        for o in c["ops"]:
            if o[0] == "B":
                ops.append("HB %d %s %s %d" % (o[1], opt_list(o[2]), opt_pairs(o[3]), o[4]))
            elif o[0] == "X":
                ops.append("HX %d" % o[1])
            else:
                ops.append("HA %d" % o[1])
        return "mkHCase %d [%s] [%s]" % (c["base"], "; ".join(rs), "; ".join(ops))

    @staticmethod
    def shrink(c):
        res = []
        ops = c["ops"]
        for i in range(len(ops)):
            d = dict(c)
            d["ops"] = ops[:i] + ops[i + 1:]
            res.append(d)
        if len(c["rules"]) > 1:
            for i in range(len(c["rules"])):
                d = dict(c)
                d["rules"] = c["rules"][:i] + c["rules"][i + 1:]
                res.append(d)
        return res


def gen_hot(rng, idx, flavor):
    """flavor: 'conc' (C05), 'reject' (C06), 'throttle' (C07), 'mixed'"""
    nrules = rng.pick([1, 1, 1, 2, 2, 3]) if flavor != "reject" else rng.pick([1, 1, 1, 2])
    rules = []
    nvals = rng.pick([1, 2, 3, 4])
    use_key = rng.chance(0.3)
    for i in range(nrules):
        kind = {"conc": 0, "reject": 1, "throttle": 2}.get(flavor)
        if kind is None:
            kind = rng.pick([0, 1, 2])
        r = {"id": i + 1, "kind": kind, "burst": 0, "maxq": 0, "dur": 1, "spec": [], "key": 0}
        if kind == 0:
            r["thr"] = rng.pick([1, 1, 2, 2, 3, 4, 5 + i, 0])
            r["dur"] = rng.pick([0, 1])
        elif kind == 1:
            r["thr"] = rng.pick([0, 1, 2, 3, 5, 5, 10, 10, 20, 7 + i])
            r["burst"] = rng.pick([0, 0, 1, 2, 5, 10])
            r["dur"] = rng.pick([1, 1, 2, 3])
        else:
            r["thr"] = rng.pick([0, 1, 1, 2, 3, 5, 10, 100, 1000, 7, 3 + i])
            r["dur"] = rng.pick([1, 1, 1, 2, 3, 10])
            r["maxq"] = rng.pick([0, 0, 1, 100, 500, 1000, 2000, 333])
        # make rules pairwise different (hotspot rule equality ignores id)
        r["thr"] += 0 if all(x["thr"] != r["thr"] or x["kind"] != r["kind"] for x in rules) else 11 * (i + 1)
        if use_key and rng.chance(0.7):
            r["key"] = rng.pick([1, 1, 2])
            r["idx"] = rng.pick([0, 0, -1])
        else:
            r["idx"] = rng.pick([0, 0, 0, 1, -1, -1, -2, 2, 3, -3])
        for v in range(nvals):
            if rng.chance(0.25):
                r["spec"].append([v, rng.pick([0, 1, 2, 3, 8, 50]) if kind != 0 else rng.pick([1, 2, 3, 6, 0])])
        rules.append(r)
    ops = []
    open_ids = []
    eid = 0
    durs = sorted(set(r["dur"] * 1000 for r in rules if r["dur"]))
    steps = [0, 0, 0, 1, 1, 5, 10, 50, 100, 333, 499, 500, 999, 1000, 1001]
    for d in durs:
        steps += [d - 1, d, d + 1, 2 * d, d // 2, 3 * d + 7]
    for r in rules:
        if r["kind"] == 2 and r["thr"]:
            c = round(r["dur"] * 1000 / r["thr"])
            steps += [c, c - 1, c + 1, max(c - r["maxq"], 0), max(c - r["maxq"] + 1, 0), max(c - r["maxq"] - 1, 0)]
    steps = [s for s in steps if s >= 0]
    nops = rng.randint(8, 45)
    for _ in range(nops):
        x = rng.random()
        if x < 0.55:
            eid += 1
            args = None
            att = None
            y = rng.random()
            if y < 0.85:
                n = rng.pick([1, 1, 2, 2, 3, 0])
                args = [rng.randrange(nvals) for _ in range(n)]
            if use_key and rng.chance(0.75):
                att = [[k, rng.randrange(nvals)] for k in rng.sample([1, 2, 3], rng.pick([0, 1, 1, 2]))]
            batch = rng.pick([1, 1, 1, 1, 2, 2, 3, 5, rng.randint(1, 12)])
            ops.append(["B", eid, args, att, batch])
            open_ids.append(eid)
        elif x < 0.7 and open_ids:
            ops.append(["X", open_ids.pop(rng.randrange(len(open_ids)))])
        else:
            dt = rng.pick(steps)
            if rng.chance(0.15):
                dt = rng.randint(0, 2500)
            ops.append(["A", dt])
    return {"tag": "%d" % idx, "base": BASE0 + idx * 1_000_000 + rng.pick([0, 1, 500, 999]), "rules": rules, "ops": ops}
