from runner import PropBase
from props.sysgen import SysCase, gen_sys


class C09(PropBase):
    id = "C09"
    harness = "sys"
    per_process = True
    props_file = "Props/C09.v"
    props_module = "Props.C09"
    coq_imports = ("From SV Require Import Model.Base Model.F64 Model.LeapArray Model.World Model.System Run.Common Run.RunSys Run.RunC09.\n"
                   "Open Scope N_scope.")
    case_type = "scase"
    agree_fn = "agree"
    spec_fn = "spec_c09"
    counts = {"quick": 600, "thorough": 12000}
    rule = ("one harness process per case (system rules and the inbound node are global): 1-3 system rules over the five "
            "metric types x both strategies with thresholds below / equal / above the values the history produces "
            "(plus a few invalid and NaN thresholds), injected load and CPU readings (set through the hook), histories "
            "of 8-45 events over inbound and outbound builds (batch 1-3), exits in random order, clock steps around "
            "bucket and window boundaries; observed: admission, the rule named and the value carried by the block; "
            "non-trivial = at least one system block; distinct = distinct case text")
    assumptions = ["load / CPU readings are injected through the verification hook instead of the OS collectors",
                   "the value carried by a block is read from the Debug text of the error (shortest round-trip decimal)"]
    trusted_extra = ["f64 arithmetic of the readings (qps, avg rt, BBR estimate) as formalised by Flocq equals the CPU's"]

    def gen(self, rng, n, tier):
        return [gen_sys(rng, i) for i in range(n)]

    def line(self, c):
        return SysCase.line(c)

    def coq(self, c):
        return SysCase.coq(c)

    def shrink_candidates(self, c):
        return SysCase.shrink(c)

    def nontrivial(self, c, obs):
        if not obs:
            return False
        rest = obs[1 + obs[0]:]
        return 1 in rest

    def stats(self, cases, obs):
        st = {"by_metric": {}, "bbr_rules": 0, "builds": 0, "outbound_builds": 0}
        for c in cases:
            for r in c["rules"]:
                st["by_metric"][str(r[1])] = st["by_metric"].get(str(r[1]), 0) + 1
                st["bbr_rules"] += r[2]
            for o in c["ops"]:
                if o[0] == "B":
                    st["builds"] += 1
                    st["outbound_builds"] += 1 - o[3]
        return st
