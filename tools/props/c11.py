"""C11 — hot reload keeps the state of unchanged rules.

Two kinds of evidence besides the theorems:
 * identity: after every manager operation the identities (object address renamed, statistic address renamed) of
   the controllers / breakers of every resource are observed; the C11 predicate (Spec/C11Spec.v) is evaluated on them;
 * behaviour: traffic histories of the other properties (flow windows incl. private rings, throttling schedule,
   hotspot token buckets / pacing / concurrency, breaker states) are run on the implementation WITH reloads of
   Eq-equal rules (fresh ids, reversed order, via load-for-resource, load-all, load-all with an unrelated resource
   added/removed) inserted at random points, and compared with the model and the Spec of the same history WITHOUT
   any reload: the reload must be invisible.
"""
import copy

from runner import PropBase
from props.c01 import C01
from props.c03 import C03
from props.c06 import C06
from props.c07 import C07Flow
from props.mgrgen import MgrCase
from props.worldgen import WorldCase, gen_world
from props.hotgen import HotCase, gen_hot
from props.cbgen import CbCase, gen_cb
from props.thrgen import ThrCase, gen_thr


def insert_reloads(rng, ops, p=0.2):
    out = []
    for o in ops:
        if rng.chance(p):
            out.append(["Z", rng.pick([0, 0, 1, 2])])
        out.append(o)
    if rng.chance(0.5):
        out.insert(rng.randrange(len(out) + 1), ["Z", rng.pick([0, 1, 2])])
    return out


def strip(c):
    d = dict(c)
    d["ops"] = [o for o in c["ops"] if o[0] != "Z"]
    return d


class ZWorld(C01):
    id = "C11"
    props_file = "Props/C11.v"
    props_module = "Props.C11"
    counts = {"quick": 300, "thorough": 10000}
    rule = ("behaviour, flow reject: C01 histories (one rule per resource: default / reused / private window) with "
            "equal-rule reloads inserted; compared with the model and the C01 predicate of the history without reloads")

    def gen(self, rng, n, tier):
        cases = []
        for i in range(n):
            c = gen_world(rng, i, "flow")
            for r in c["res"]:
                r["flow"] = r["flow"][:1]
                r["flow"] = [f for f in r["flow"] if f[1] == f[1] and f[1] >= 0]   # valid thresholds only
            c["ops"] = insert_reloads(rng, c["ops"])
            cases.append(c)
        return cases

    def line(self, c):
        return WorldCase.line(c)

    def coq(self, c):
        return WorldCase.coq(strip(c))

    def nontrivial(self, c, obs):
        return any(o[0] == "Z" for o in c["ops"]) and sum(1 for o in c["ops"] if o[0] == "B") >= 2


class ZHot(C06):
    id = "C11"
    props_file = "Props/C11.v"
    props_module = "Props.C11"
    coq_imports = ("From SV Require Import Model.Base Model.Hotspot Run.Common Run.RunHot Run.RunC06 Run.RunC05h Run.RunC07.\n"
                   "Open Scope N_scope.\n"
                   "Definition spec_hot_all (co : hcase * list Z) : bool := spec_c06 co && spec_c05h co && spec_c07_hot co.")
    agree_fn = "RunHot.agree"
    spec_fn = "spec_hot_all"
    counts = {"quick": 300, "thorough": 10000}
    rule = ("behaviour, hotspot: C05/C06/C07 histories with one rule (concurrency, QPS reject or QPS throttling) and "
            "equal-rule reloads inserted; compared with the model and the Specs of the history without reloads")

    def gen(self, rng, n, tier):
        cases = []
        for i in range(n):
            c = gen_hot(rng, i, rng.pick(["conc", "reject", "throttle"]))
            c["rules"] = c["rules"][:1]
            c["ops"] = insert_reloads(rng, c["ops"])
            cases.append(c)
        return cases

    def line(self, c):
        return HotCase.line(c)

    def coq(self, c):
        return HotCase.coq(strip(c))

    def nontrivial(self, c, obs):
        return any(o[0] == "Z" for o in c["ops"]) and sum(1 for o in c["ops"] if o[0] == "B") >= 2


class ZCb(C03):
    id = "C11"
    props_file = "Props/C11.v"
    props_module = "Props.C11"
    counts = {"quick": 300, "thorough": 10000}
    rule = ("behaviour, circuit breaker: C03 histories with one breaker and equal-rule reloads inserted (also while "
            "Open and Half-Open); compared with the model and the C03 state machine of the history without reloads")

    def gen(self, rng, n, tier):
        cases = []
        for i in range(n):
            c = gen_cb(rng, i)
            c["rules"] = c["rules"][:1]
            c["ops"] = insert_reloads(rng, c["ops"])
            cases.append(c)
        return cases

    def line(self, c):
        return CbCase.line(c)

    def coq(self, c):
        return CbCase.coq(strip(c))

    def nontrivial(self, c, obs):
        return any(o[0] == "Z" for o in c["ops"]) and sum(1 for o in c["ops"] if o[0] == "X") >= 1

    def stats(self, cases, obs):
        return {"reloads": sum(1 for c in cases for o in c["ops"] if o[0] == "Z")}


class ZThr(C07Flow):
    id = "C11"
    props_file = "Props/C11.v"
    props_module = "Props.C11"
    counts = {"quick": 150, "thorough": 6000}
    rule = ("behaviour, flow throttling: C07 histories with one rule and equal-rule reloads inserted (with queued "
            "slots); compared with the model and the pacer of the history without reloads")

    def gen(self, rng, n, tier):
        cases = []
        for i in range(n):
            c = gen_thr(rng, i)
            c["rules"] = c["rules"][:1]
            c["ops"] = insert_reloads(rng, c["ops"])
            cases.append(c)
        return cases

    def line(self, c):
        return ThrCase.line(c)

    def coq(self, c):
        return ThrCase.coq(strip(c))

    def nontrivial(self, c, obs):
        return any(o[0] == "Z" for o in c["ops"]) and sum(1 for o in c["ops"] if o[0] == "B") >= 2


class C11Id(PropBase):
    id = "C11"
    harness = "mgr"
    props_file = "Props/C11.v"
    props_module = "Props.C11"
    coq_imports = ("From SV Require Import Model.Base Model.Manager Run.Common Run.RunMgr Run.RunC11.\n"
                   "Open Scope N_scope.")
    case_type = "icase"
    agree_fn = "agree11"
    spec_fn = "spec_c11"
    counts = {"quick": 500, "thorough": 16000}
    rule = ("identity: flow / hotspot / circuit-breaker managers, pools of valid, invalid and duplicate rules over 2-3 "
            "resources, sequences of load-all / load-for-resource / append / clear with the identities of every "
            "resource's controllers observed after each; the C11 identity predicate is evaluated on the "
            "implementation's observations (object and statistic addresses renamed to first-seen indices); "
            "non-trivial = at least two loads; distinct = distinct case text")
    assumptions = ["object identity is observed as the Arc pointer; an address reused after a drop could hide a "
                   "replacement (it cannot cause a false alarm)"]
    trusted_extra = []

    def gen(self, rng, n, tier):
        cases = []
        keys = [1, 2, 3, 4, 6, 7, 5, 8, 9]
        for i in range(n):
            fam = rng.pick([0, 1, 2])
            nres = rng.pick([2, 3])
            pool = []
            rid = 0
            for res in range(1, nres + 1):
                for k in rng.sample(keys, rng.pick([1, 2, 3])):
                    for _ in range(rng.pick([1, 2, 2, 3])):      # the same rule under several ids: reload material
                        rid += 1
                        pool.append([rid, res, k])
            ops = []
            for _ in range(rng.randint(3, 9)):
                x = rng.random()
                if x < 0.4:
                    # one rule per (res, key) class, random representative
                    chosen = {}
                    for ix, r in enumerate(pool):
                        if rng.chance(0.8):
                            chosen[(r[1], r[2])] = ix if (r[1], r[2]) not in chosen or rng.chance(0.5) else chosen[(r[1], r[2])]
                    ixs = list(chosen.values())
                    rng.shuffle(ixs)
                    ops.append(["L", ixs])
                elif x < 0.7:
                    res = rng.randint(1, nres)
                    chosen = {}
                    for ix, r in enumerate(pool):
                        if r[1] == res and rng.chance(0.8):
                            chosen[r[2]] = ix if r[2] not in chosen or rng.chance(0.5) else chosen[r[2]]
                    ixs = list(chosen.values())
                    rng.shuffle(ixs)
                    ops.append(["R", res, ixs])
                elif x < 0.9:
                    ops.append(["P", rng.randrange(len(pool))])
                elif x < 0.95:
                    ops.append(["K", rng.randint(1, nres)])
                else:
                    ops.append(["C"])
                for res in range(1, nres + 1):
                    ops.append(["T", res])
            cases.append({"tag": str(i), "family": fam, "pool": pool, "nres": nres, "ops": ops})
        return cases

    def line(self, c):
        return MgrCase.line(c)

    def coq(self, c):
        # an invalid isolation rule has threshold 0, so all invalid isolation rules of a resource are equal rules: one class
        def key_of(r):
            return 0 if (c["family"] == 3 and r[2] % 5 == 0) else r[2]
        pool = "; ".join("mkRule %d %d %d %s %d" % (r[0], r[1], key_of(r), "true" if (r[2] % 5 != 0 and r[1] != 0) else "false", r[2] % 2)
                         for r in c["pool"])

        def nl(l):
            return "[%s]" % "; ".join("%d%%nat" % x for x in l)
        ops = []
        for o in c["ops"]:
            k = o[0]
            if k == "L":
                ops.append("ILoadAll %s" % nl(o[1]))
            elif k == "R":
                ops.append("ILoadRes %d %s" % (o[1], nl(o[2])))
            elif k == "P":
                ops.append("IAppend %d%%nat" % o[1])
            elif k == "C":
                ops.append("IClear")
            elif k == "K":
                ops.append("IClearRes %d" % o[1])
            else:
                ops.append("IToks %d" % o[1])
        return "mkICase %d [%s] [%s]" % (c["family"], pool, "; ".join(ops))

    def nontrivial(self, c, obs):
        return sum(1 for o in c["ops"] if o[0] in ("L", "R")) >= 2

    def shrink_candidates(self, c):
        return MgrCase.shrink(c)

    def stats(self, cases, obs):
        return {"loads": sum(1 for c in cases for o in c["ops"] if o[0] in ("L", "R")),
                "appends": sum(1 for c in cases for o in c["ops"] if o[0] == "P")}


class C11(C11Id):
    def parts(self):
        # "a rule whose parameters changed takes effect on the very next entry": after every manager operation the
        # enforced rules are the prescribed ones, which is the C10 predicate on the C10 cases
        from props.c10 import C10
        return [C11Id(), ZWorld(), ZHot(), ZCb(), ZThr(), RuleEq(), C10()]


class RuleEq(PropBase):
    """Rule equality and statistic reuse, field by field: the managers' notion of 'unchanged rule' and of
    'changed rule' is the rules' PartialEq; a field that is compared must make a changed rule unequal."""
    id = "C11"
    harness = "req"
    props_file = "Props/C11.v"
    props_module = "Props.C11"
    coq_imports = ("From SV Require Import Model.Base Model.F64 Model.Rules Run.Common Run.RunC12.\n"
                   "Open Scope N_scope.")
    case_type = "rule_pair"
    agree_fn = "agree_pair"
    spec_fn = "agree_pair"
    counts = {"quick": 800, "thorough": 30000}
    rule = ("rule equality: pairs of rules of one family that differ in exactly one field (every field of every "
            "family in turn, incl. override maps) or in nothing but the id; PartialEq and is_stat_reusable of the "
            "implementation compared with the model's field tables (Model/Rules.v)")
    assumptions = []
    trusted_extra = []

    def gen(self, rng, n, tier):
        from props.rulegen import gen_rule, mutate
        cases = []
        for _ in range(n):
            a = gen_rule(rng, rng.pick([0, 0, 1, 1, 2, 3, 4]))
            cases.append({"a": a, "b": mutate(rng, a)})
        return cases

    def corpus(self):
        return []

    def line(self, c):
        return " ".join(str(x) for x in ["q"] + c["a"]["toks"] + c["b"]["toks"])

    def coq(self, c):
        from props.rulegen import coq_full
        k = ["PFlow", "PHot", "PCb", "PIso", "PSys"][c["a"]["family"]]
        return "%s (%s) (%s)" % (k, coq_full(c["a"]), coq_full(c["b"]))

    def nontrivial(self, c, obs):
        return c["b"].get("changed") is not None

    def stats(self, cases, obs):
        st = {}
        for c in cases:
            k = "%d:%s" % (c["a"]["family"], c["b"].get("changed"))
            st[k] = st.get(k, 0) + 1
        return {"pairs_by_family_and_changed_field": st}
