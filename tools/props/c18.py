from runner import PropBase

U64 = 2 ** 64 - 1


def utf8_name(rng):
    parts = []
    for _ in range(rng.randint(0, 12)):
        r = rng.random()
        if r < 0.6:
            parts.append(rng.pick("abcXYZ09/_-. :"))
        elif r < 0.8:
            parts.append("|")
        else:
            parts.append(rng.pick(["é", "资源", "ß", "🙂", "\t"]))
    return list("".join(parts).encode("utf-8"))


class C18Line(PropBase):
    id = "C18"
    harness = "ml"
    props_file = "Props/C18.v"
    props_module = "Props.C18"
    coq_imports = ("From SV Require Import Model.Base Model.MetricLine Run.Common Run.RunC18.\n"
                   "Open Scope N_scope.")
    case_type = "mlcase"
    agree_fn = "agree"
    spec_fn = "spec_c18"
    counts = {"quick": 2000, "thorough": 40000}
    rule = ("metric items with arbitrary counters (0, 1, small, u32/u64 boundaries), resource types 0..6, realistic "
            "and boundary timestamps, resource names with ASCII, unicode and separator characters: formatted by "
            "Display and parsed back by from_string; plus arbitrary lines (mutated valid lines: dropped / extra / "
            "empty fields, signs, non-digits, overflowing numbers, fewer than 8 fields, empty line) parsed by "
            "from_string; non-trivial = an item with a non-empty name or a mutated line; distinct = distinct case text")
    assumptions = ["timestamps below year 10000 (format_time_millis unwraps the calendar conversion)"]
    trusted_extra = ["the time crate's HH:MM:SS formatting; Rust's integer Display / FromStr"]
    partial_note = ("the rule-JSON half of C18 is exercised on the implementation only (serde_json round trips of "
                    "generated rules, dropped / mistyped fields, truncation at every byte), not covered by a theorem: "
                    "serde's derive semantics are library code")

    def gen_item(self, rng):
        def cnt():
            return rng.pick([0, 0, 1, 2, 7, 10, 99, 1000, 2 ** 32 - 1, 2 ** 32, U64, U64 - 1, rng.randint(0, 10 ** 6)])
        ts = rng.pick([0, 1, 999, 1000, 86399999, 86400000, 1700000000123, 1700000000000 + rng.randint(0, 10 ** 9),
                       253402300799999])
        return {"mode": 0, "type": rng.randint(0, 6), "ts": ts, "c": [cnt() for _ in range(6)],
                "conc": rng.pick([0, 1, 5, 2 ** 32 - 1, rng.randint(0, 1000)]), "name": utf8_name(rng)}

    def gen(self, rng, n, tier):
        cases = []
        for _ in range(n):
            if rng.chance(0.55):
                cases.append(self.gen_item(rng))
            else:
                it = self.gen_item(rng)
                fields = [str(it["ts"]), "12:00:00", bytes(b for b in it["name"] if b != 124).decode("utf-8")] + \
                         [str(x) for x in it["c"]] + [str(it["conc"]), str(it["type"])]
                k = rng.random()
                if k < 0.2:
                    del fields[rng.randrange(len(fields)):]
                elif k < 0.4:
                    fields[rng.randrange(len(fields))] = rng.pick(["", "+5", "-5", "x", "1.5", " 7", "18446744073709551616",
                                                                   "4294967296", "256", "007", "1e3"])
                elif k < 0.5:
                    fields.insert(rng.randrange(len(fields) + 1), rng.pick(["", "extra"]))
                elif k < 0.55:
                    fields = []
                line = "|".join(fields)
                if rng.chance(0.05):
                    line += "|"
                cases.append({"mode": 1, "line": list(line.encode("utf-8"))})
        return cases

    def line(self, c):
        if c["mode"] == 0:
            toks = [0, c["type"], c["ts"]] + c["c"] + [c["conc"], len(c["name"])] + c["name"]
        else:
            toks = [1, len(c["line"])] + c["line"]
        return " ".join(str(x) for x in toks)

    def coq(self, c):
        def bl(l):
            return "[%s]" % "; ".join(str(x) for x in l)
        if c["mode"] == 0:
            return "MLItem (mkMI %s %d %d %d %d %d %d %d %d %d)" % (
                bl(c["name"]), c["type"], c["ts"], c["c"][0], c["c"][1], c["c"][2], c["c"][3], c["c"][4], c["c"][5], c["conc"])
        return "MLLine %s" % bl(c["line"])

    def nontrivial(self, c, obs):
        return (c["mode"] == 0 and len(c["name"]) > 0) or c["mode"] == 1

    def stats(self, cases, obs):
        return {"items": sum(1 for c in cases if c["mode"] == 0), "lines": sum(1 for c in cases if c["mode"] == 1),
                "lines_rejected": sum(1 for c, o in zip(cases, obs) if c["mode"] == 1 and o == [0])}


class C18Rules(PropBase):
    id = "C18"
    harness = "rj"
    props_file = "Props/C18.v"
    props_module = "Props.C18"
    coq_imports = ("From SV Require Import Model.Base Model.MetricLine Run.Common Run.RunC18.\n"
                   "Open Scope N_scope.")
    case_type = "N"
    agree_fn = "rj_ok"
    spec_fn = "rj_ok"
    counts = {"quick": 1500, "thorough": 30000}
    rule = ("rules half (implementation only, no theorem): rules of all five families from the C12 generator (every "
            "enum variant, boundary numbers, unicode and separator-containing resource names, override maps; finite "
            "numbers), serialised with serde_json and parsed back through the datasource parser's call; every field "
            "dropped in turn (must take its default), every field given a wrong JSON type (must be an error), the "
            "document cut at every byte (must be an error, never a panic)")
    assumptions = ["serde_json::from_str::<Vec<Rule>> is what datasource::rule_json_array_parser calls (the "
                   "datasource module itself needs network client crates that are not available offline)",
                   "non-finite thresholds (NaN / inf) are not generated: serde_json writes them as null, which does "
                   "not parse back (see DESIGN, observations)"]
    trusted_extra = []

    def gen(self, rng, n, tier):
        from props.rulegen import gen_rule
        return [gen_rule(rng, rng.pick([0, 1, 2, 3, 4]), finite_only=True) for _ in range(n)]

    def corpus(self):
        return []

    def line(self, c):
        return " ".join(str(x) for x in ["j"] + c["toks"])

    def coq(self, c):
        return "%d" % c["family"]

    def nontrivial(self, c, obs):
        return True

    def stats(self, cases, obs):
        st = {}
        for c in cases:
            st[str(c["family"])] = st.get(str(c["family"]), 0) + 1
        return {"by_family": st, "fields_checked": sum(o[4] for o in obs if o and len(o) > 4)}


class C18(C18Line):
    def parts(self):
        return [C18Line(), C18Rules()]
