"""Flow throttling cases (C07 flow part)."""
import struct

BASE0 = 1_700_000_000_000


def f64_bits(x):
    return struct.unpack("<Q", struct.pack("<d", x))[0]


class ThrCase:
    @staticmethod
    def line(c):
        toks = [c["tag"], c["base"], len(c["rules"])]
        for r in c["rules"]:
            toks += [r[0], f64_bits(r[1]), r[2], r[3]]
        for o in c["ops"]:
            toks += o
        return " ".join(str(x) for x in toks)

    @staticmethod
    def coq(c):
        rs = "; ".join("(%d%%N, %d, %d%%N, %d%%N)" % (r[0], f64_bits(r[1]), r[2], r[3]) for r in c["rules"])
        ops = "; ".join(("TB %d%%N" % o[1]) if o[0] == "B" else ("TA %d" % o[1]) for o in c["ops"])
        return "mkTCase %d [%s] [%s]" % (c["base"] * 1000000, rs, ops)

    @staticmethod
    def shrink(c):
        res = []
        for i in range(len(c["ops"])):
            d = dict(c)
            d["ops"] = c["ops"][:i] + c["ops"][i + 1:]
            res.append(d)
        if len(c["rules"]) > 1:
            for i in range(len(c["rules"])):
                d = dict(c)
                d["rules"] = c["rules"][:i] + c["rules"][i + 1:]
                res.append(d)
        return res


def gen_thr(rng, idx):
    nr = rng.pick([1, 1, 1, 2])
    rules = []
    for i in range(nr):
        thr = rng.pick([1.0, 2.0, 3.0, 5.0, 7.0, 10.0, 50.0, 100.0, 333.0, 1000.0, 0.0, 2.5, 0.5,
                        float(rng.randint(1, 1000))])
        if any(abs(thr - r[1]) < 1e-9 for r in rules):
            thr += 1.0
        maxq = rng.pick([0, 0, 1, 10, 100, 500, 1000, 2000, rng.randint(0, 2000)])
        stat = rng.pick([0, 1000, 1000, 100, 200, 500, 2000, 10000, rng.randint(100, 10000)])
        rules.append([i + 1, thr, maxq, stat])
    ops = []
    steps = [0, 0, 0, 1, 1000, 999999, 1000000, 1000001, 5000000]
    for r in rules:
        if r[1] > 0:
            st = (r[3] or 1000) * 1000000
            c = int(st / r[1])
            steps += [c, c - 1, c + 1, c // 2, 2 * c, max(c - r[2] * 1000000, 0), max(c - r[2] * 1000000 - 1, 0),
                      max(c - r[2] * 1000000 + 1, 0), st, st + 1]
    for _ in range(rng.randint(6, 40)):
        if rng.chance(0.6):
            ops.append(["B", rng.pick([1, 1, 1, 1, 2, 2, 3, 5, 0, rng.randint(0, 12)])])
        else:
            dt = rng.pick(steps)
            if rng.chance(0.15):
                dt = rng.randint(0, 3_000_000_000)
            ops.append(["A", dt])
    return {"tag": "%d" % idx, "base": BASE0 + idx * 1_000_000, "rules": rules, "ops": ops}
