//! A cooperative scheduler over the library's scheduling points: managed threads run one at a
//! time, control changes hands only at points, so an interleaving is a replayable list of
//! thread ids.  All scheduling points used here lie outside lock-held regions, so a paused
//! thread never holds a lock.
use sentinel_core::verif::sched;
use std::cell::Cell;
use std::sync::{Arc, Condvar, Mutex};
use std::time::Duration;

thread_local! { static TID: Cell<Option<usize>> = Cell::new(None); }

#[derive(Default)]
struct St {
    turn: Option<usize>,          // the thread allowed to run
    waiting: Vec<bool>,           // thread is parked at a point
    finished: Vec<bool>,
    trace: Vec<(usize, &'static str)>,
}

pub struct Sched {
    st: Mutex<St>,
    cv: Condvar,
}

impl Sched {
    fn park(&self, tid: usize, name: &'static str) {
        let mut g = self.st.lock().unwrap();
        g.trace.push((tid, name));
        g.waiting[tid] = true;
        g.turn = None;
        self.cv.notify_all();
        while g.turn != Some(tid) {
            g = self.cv.wait(g).unwrap();
        }
        g.waiting[tid] = false;
    }
}

/// Run the thread bodies under the given schedule (a list of thread ids; a step lets that
/// thread run from its current point to its next point or to its end; steps naming a finished
/// thread are skipped; `before_step(i)` is called before step i; when the list is exhausted the
/// remaining threads run round-robin).  Returns the trace of (thread, point) and whether every
/// thread finished (false = some thread stayed blocked: a deadlock verdict).
pub fn run(
    bodies: Vec<Box<dyn FnOnce() + Send>>,
    schedule: &[usize],
    mut before_step: impl FnMut(usize),
) -> (Vec<(usize, &'static str)>, bool) {
    let n = bodies.len();
    let s = Arc::new(Sched { st: Mutex::new(St { turn: None, waiting: vec![false; n], finished: vec![false; n], trace: vec![] }), cv: Condvar::new() });
    let s2 = s.clone();
    sched::set_callback(Some(Box::new(move |name| {
        if let Some(tid) = TID.with(|t| t.get()) {
            s2.park(tid, name);
        }
    })));
    let mut handles = Vec::new();
    for (tid, body) in bodies.into_iter().enumerate() {
        let s3 = s.clone();
        handles.push(std::thread::spawn(move || {
            TID.with(|t| t.set(Some(tid)));
            s3.park(tid, "start");
            let r = std::panic::catch_unwind(std::panic::AssertUnwindSafe(body));
            TID.with(|t| t.set(None));
            let mut g = s3.st.lock().unwrap();
            g.finished[tid] = true;
            if r.is_err() {
                g.trace.push((tid, "panic"));
            }
            g.turn = None;
            s3.cv.notify_all();
        }));
    }
    // wait until every thread is parked at "start"
    {
        let mut g = s.st.lock().unwrap();
        while !(0..n).all(|i| g.waiting[i] || g.finished[i]) {
            g = s.cv.wait(g).unwrap();
        }
    }
    let mut all_done = true;
    let mut step = |tid: usize, s: &Arc<Sched>| -> bool {
        let mut g = s.st.lock().unwrap();
        if g.finished[tid] {
            return true;
        }
        g.turn = Some(tid);
        s.cv.notify_all();
        // wait until it parks again or finishes
        loop {
            let (g2, to) = s.cv.wait_timeout(g, Duration::from_millis(2000)).unwrap();
            g = g2;
            if g.finished[tid] || (g.waiting[tid] && g.turn.is_none()) {
                return true;
            }
            if to.timed_out() {
                return false; // blocked outside a scheduling point
            }
        }
    };
    for (i, &tid) in schedule.iter().enumerate() {
        before_step(i);
        if tid < n && !step(tid, &s) {
            all_done = false;
            break;
        }
    }
    if all_done {
        'outer: loop {
            let mut progressed = false;
            for tid in 0..n {
                let fin = s.st.lock().unwrap().finished[tid];
                if !fin {
                    if !step(tid, &s) {
                        all_done = false;
                        break 'outer;
                    }
                    progressed = true;
                }
            }
            if !progressed {
                break;
            }
        }
    }
    sched::set_callback(None);
    if all_done {
        for h in handles {
            let _ = h.join();
        }
    }
    let trace = s.st.lock().unwrap().trace.clone();
    (trace, all_done)
}
