//! A cooperative scheduler over the library's scheduling points: managed threads run one at a
//! time, control changes hands only at points, so an interleaving is a replayable list of
//! thread ids.  All scheduling points used here lie outside lock-held regions, so a paused
//! thread never holds a lock.
use sentinel_core::verif::sched;
use std::cell::Cell;
use std::sync::{Arc, Condvar, Mutex};
use std::time::Duration;

thread_local! { static TID: Cell<Option<usize>> = Cell::new(None); }

#[derive(Default)]
struct St {
    turn: Option<usize>,          // the thread allowed to run
    waiting: Vec<bool>,           // thread is parked at a point
    finished: Vec<bool>,
    trace: Vec<(usize, &'static str)>,
}

/// the managed thread this code runs on (None on the main thread)
pub fn current_tid() -> Option<usize> {
    TID.with(|t| t.get())
}

pub fn point_code(name: &str) -> i128 {
    match name {
        "start" => 0,
        "ns:miss" => 1,
        "la:loop" => 2,
        "la:mid_reset" => 3,
        "mb:add" => 4,
        "rn:inc" => 5,
        "rn:dec" => 6,
        "cb:read" => 7,
        "cb:c2o" => 8,
        "cb:o2h" => 9,
        "cb:h2o" => 10,
        "cb:h2c" => 11,
        "cb:oracle" => 12,
        "panic" => 99,
        _ => 98,
    }
}

pub struct Sched {
    st: Mutex<St>,
    cv: Condvar,
}

impl Sched {
    fn park(&self, tid: usize, name: &'static str) {
        let mut g = self.st.lock().unwrap();
        g.trace.push((tid, name));
        g.waiting[tid] = true;
        g.turn = None;
        self.cv.notify_all();
        while g.turn != Some(tid) {
            g = self.cv.wait(g).unwrap();
        }
        g.waiting[tid] = false;
    }
}

/// Run the thread bodies under the given schedule (a list of thread ids; a step lets that
/// thread run from its current point to its next point or to its end; steps naming a finished
/// thread are skipped; `before_step(i)` is called before step i; when the list is exhausted the
/// remaining threads run round-robin).  Returns the trace of (thread, point) and whether every
/// thread finished (false = some thread stayed blocked: a deadlock verdict).
pub fn run(
    bodies: Vec<Box<dyn FnOnce() + Send>>,
    schedule: &[usize],
    mut before_step: impl FnMut(usize),
    filter: fn(&str) -> bool,
) -> (Vec<(usize, &'static str)>, bool) {
    let n = bodies.len();
    let s = Arc::new(Sched { st: Mutex::new(St { turn: None, waiting: vec![false; n], finished: vec![false; n], trace: vec![] }), cv: Condvar::new() });
    let s2 = s.clone();
    sched::set_callback(Some(Box::new(move |name| {
        if !filter(name) {
            return;
        }
        if let Some(tid) = TID.with(|t| t.get()) {
            s2.park(tid, name);
        }
    })));
    let mut handles = Vec::new();
    for (tid, body) in bodies.into_iter().enumerate() {
        let s3 = s.clone();
        handles.push(std::thread::spawn(move || {
            TID.with(|t| t.set(Some(tid)));
            s3.park(tid, "start");
            let r = std::panic::catch_unwind(std::panic::AssertUnwindSafe(body));
            TID.with(|t| t.set(None));
            let mut g = s3.st.lock().unwrap();
            g.finished[tid] = true;
            if r.is_err() {
                g.trace.push((tid, "panic"));
            }
            g.turn = None;
            s3.cv.notify_all();
        }));
    }
    // wait until every thread is parked at "start"
    {
        let mut g = s.st.lock().unwrap();
        while !(0..n).all(|i| g.waiting[i] || g.finished[i]) {
            g = s.cv.wait(g).unwrap();
        }
    }
    let mut all_done = true;
    let mut step = |tid: usize, s: &Arc<Sched>| -> bool {
        let mut g = s.st.lock().unwrap();
        if g.finished[tid] {
            return true;
        }
        g.turn = Some(tid);
        s.cv.notify_all();
        // wait until it parks again or finishes
        loop {
            let (g2, to) = s.cv.wait_timeout(g, Duration::from_millis(2000)).unwrap();
            g = g2;
            if g.finished[tid] || (g.waiting[tid] && g.turn.is_none()) {
                return true;
            }
            if to.timed_out() {
                return false; // blocked outside a scheduling point
            }
        }
    };
    for (i, &tid) in schedule.iter().enumerate() {
        before_step(i);
        if tid < n && !step(tid, &s) {
            all_done = false;
            break;
        }
    }
    if all_done {
        'outer: loop {
            let mut progressed = false;
            for tid in 0..n {
                let fin = s.st.lock().unwrap().finished[tid];
                if !fin {
                    if !step(tid, &s) {
                        all_done = false;
                        break 'outer;
                    }
                    progressed = true;
                }
            }
            if !progressed {
                break;
            }
        }
    }
    sched::set_callback(None);
    if all_done {
        for h in handles {
            let _ = h.join();
        }
    }
    let trace = s.st.lock().unwrap().trace.clone();
    (trace, all_done)
}


/// Like `run`, but a thread that does not reach its next point within `wait_ms` is taken to be
/// blocked on a lock (it keeps running on its own if the lock is released later).  Steps naming a
/// blocked thread are skipped unless it has parked again meanwhile.  After the schedule the
/// runnable threads take turns; when none is runnable and some are unfinished they get
/// `grace_ms` to come back, otherwise the verdict is a deadlock.
/// Returns (trace, verdict): verdict 0 = all finished, 1 = deadlock.
pub fn run_blocking(
    bodies: Vec<Box<dyn FnOnce() + Send>>,
    schedule: &[usize],
    filter: fn(&str) -> bool,
    on_point: Option<Arc<dyn Fn(usize, &'static str) + Send + Sync>>,
    wait_ms: u64,
    grace_ms: u64,
) -> (Vec<(usize, &'static str)>, i128) {
    struct B {
        go: Vec<bool>,
        parks: Vec<u64>,
        waiting: Vec<bool>,
        finished: Vec<bool>,
        trace: Vec<(usize, &'static str)>,
    }
    let n = bodies.len();
    let st = Arc::new((Mutex::new(B { go: vec![false; n], parks: vec![0; n], waiting: vec![false; n], finished: vec![false; n], trace: vec![] }), Condvar::new()));
    fn park(st: &Arc<(Mutex<B>, Condvar)>, tid: usize, name: &'static str) {
        let (m, cv) = &**st;
        let mut g = m.lock().unwrap();
        g.trace.push((tid, name));
        g.waiting[tid] = true;
        g.parks[tid] += 1;
        cv.notify_all();
        while !g.go[tid] {
            g = cv.wait(g).unwrap();
        }
        g.go[tid] = false;
        g.waiting[tid] = false;
    }
    let st2 = st.clone();
    sched::set_callback(Some(Box::new(move |name| {
        if !filter(name) {
            return;
        }
        if let Some(tid) = TID.with(|t| t.get()) {
            if let Some(f) = &on_point {
                f(tid, name);
            }
            park(&st2, tid, name);
        }
    })));
    for (tid, body) in bodies.into_iter().enumerate() {
        let st3 = st.clone();
        std::thread::spawn(move || {
            TID.with(|t| t.set(Some(tid)));
            park(&st3, tid, "start");
            let r = std::panic::catch_unwind(std::panic::AssertUnwindSafe(body));
            TID.with(|t| t.set(None));
            let (m, cv) = &*st3;
            let mut g = m.lock().unwrap();
            g.finished[tid] = true;
            if r.is_err() {
                g.trace.push((tid, "panic"));
            }
            cv.notify_all();
        });
    }
    let (m, cv) = &*st;
    {
        let mut g = m.lock().unwrap();
        while !(0..n).all(|i| g.waiting[i] || g.finished[i]) {
            g = cv.wait(g).unwrap();
        }
    }
    // a thread is runnable when it is parked; step: let it go and wait for it to park again / finish
    let step = |tid: usize| -> bool {
        let mut g = m.lock().unwrap();
        if g.finished[tid] || !g.waiting[tid] || g.go[tid] {
            return false;
        }
        let before = g.parks[tid];
        g.go[tid] = true;
        cv.notify_all();
        let deadline = std::time::Instant::now() + Duration::from_millis(wait_ms);
        loop {
            if g.finished[tid] || g.parks[tid] > before {
                return true;
            }
            let now = std::time::Instant::now();
            if now >= deadline {
                return true; // blocked (or slow): leave it alone
            }
            let (g2, _) = cv.wait_timeout(g, deadline - now).unwrap();
            g = g2;
        }
    };
    for &tid in schedule {
        if tid < n {
            step(tid);
        }
    }
    let verdict;
    let mut idle_since: Option<std::time::Instant> = None;
    loop {
        let (all_fin, runnable): (bool, Vec<usize>) = {
            let g = m.lock().unwrap();
            ((0..n).all(|i| g.finished[i]), (0..n).filter(|&i| !g.finished[i] && g.waiting[i] && !g.go[i]).collect())
        };
        if all_fin {
            verdict = 0;
            break;
        }
        if runnable.is_empty() {
            let t0 = *idle_since.get_or_insert_with(std::time::Instant::now);
            if t0.elapsed() > Duration::from_millis(grace_ms) {
                verdict = 1;
                break;
            }
            std::thread::sleep(Duration::from_millis(5));
            continue;
        }
        idle_since = None;
        for tid in runnable {
            step(tid);
        }
    }
    if verdict == 0 {
        sched::set_callback(None);
    }
    let trace = m.lock().unwrap().trace.clone();
    (trace, verdict)
}
