//! C14 cases (one process per case): 2-3 threads build and exit entries on one resource under a forced
//! interleaving of the library's scheduling points, on the virtual clock.
//! case: base_ms fresh(0/1) nthreads { nops (B batch inbound | X)* }*  nsteps (tid dt_ms)*
//!       a step advances the clock by dt_ms and then lets thread tid run to its next point
//! out : all_done ntrace (tid point)* ; nbuilds (tid node_token)* ; final: node_token inflight pass complete rt
//!       inbound: inflight pass complete rt
use crate::sched;
use crate::util::*;
use sentinel_core::base::{ConcurrencyStat, EntryStrongPtr, MetricEvent, ReadStat, TrafficType};
use sentinel_core::verif::clock;
use sentinel_core::{stat, EntryBuilder};
use std::collections::HashMap;
use std::sync::{Arc, Mutex};

pub fn point_code(name: &str) -> i128 {
    match name {
        "start" => 0,
        "ns:miss" => 1,
        "la:loop" => 2,
        "la:mid_reset" => 3,
        "mb:add" => 4,
        "rn:inc" => 5,
        "rn:dec" => 6,
        "cb:state_read" => 7,
        "cb:before_decide" => 8,
        "panic" => 9,
        _ => 99,
    }
}

pub fn run_case(t: &mut Toks) -> Vec<i128> {
    let mut out = Vec::new();
    let base = t.u64();
    clock::set_ms(base);
    let fresh = t.u64();
    let name = String::from("conc_res");
    if fresh == 0 {
        // the resource (and the inbound node) already exist and have seen traffic in an older window
        clock::set_ms(base - 60_000);
        if let Ok(e) = EntryBuilder::new(name.clone()).with_traffic_type(TrafficType::Inbound).build() {
            e.exit();
        }
        clock::set_ms(base);
    }
    let nt = t.usize();
    let mut progs: Vec<Vec<(u64, u32, u64)>> = Vec::new();
    for _ in 0..nt {
        let k = t.usize();
        let mut p = Vec::new();
        for _ in 0..k {
            match t.s().as_str() {
                "B" => p.push((0, t.u32(), t.u64())),
                _ => p.push((1, 0, 0)),
            }
        }
        progs.push(p);
    }
    let ns = t.usize();
    let steps: Vec<(usize, u64)> = (0..ns).map(|_| (t.usize(), t.u64())).collect();
    let nodes: Arc<Mutex<Vec<(usize, usize)>>> = Arc::new(Mutex::new(Vec::new()));
    let mut bodies: Vec<Box<dyn FnOnce() + Send>> = Vec::new();
    for (tid, prog) in progs.into_iter().enumerate() {
        let name = name.clone();
        let nodes = nodes.clone();
        bodies.push(Box::new(move || {
            let mut open: Vec<EntryStrongPtr> = Vec::new();
            for (kind, batch, inbound) in prog {
                if kind == 0 {
                    let b = EntryBuilder::new(name.clone())
                        .with_batch_count(batch)
                        .with_traffic_type(if inbound == 1 { TrafficType::Inbound } else { TrafficType::Outbound });
                    if let Ok(e) = b.build() {
                        let p = e.context().read().unwrap().stat_node().map(|n| Arc::as_ptr(&n) as *const u8 as usize).unwrap_or(0);
                        nodes.lock().unwrap().push((tid, p));
                        open.push(e);
                    }
                } else if let Some(e) = open.pop() {
                    e.exit();
                }
            }
        }));
    }
    let sched_ids: Vec<usize> = steps.iter().map(|s| s.0).collect();
    let dts: Vec<u64> = steps.iter().map(|s| s.1).collect();
    let (trace, all_done) = sched::run(bodies, &sched_ids, |i| {
        if dts[i] > 0 {
            clock::advance_ns(dts[i] as i128 * 1_000_000);
        }
    });
    out.push(all_done as i128);
    out.push(trace.len() as i128);
    for (tid, p) in &trace {
        out.extend([*tid as i128, point_code(p)]);
    }
    let mut toks: HashMap<usize, i128> = HashMap::new();
    let mut tok = |p: usize| -> i128 {
        let n = toks.len() as i128 + 1;
        *toks.entry(p).or_insert(n)
    };
    let ns = nodes.lock().unwrap().clone();
    out.push(ns.len() as i128);
    for (tid, p) in ns {
        out.extend([tid as i128, tok(p)]);
    }
    match stat::get_resource_node(&name) {
        Some(n) => {
            let p = Arc::as_ptr(&n) as *const u8 as usize;
            out.extend([tok(p), n.current_concurrency() as i128, n.sum(MetricEvent::Pass) as i128,
                        n.sum(MetricEvent::Complete) as i128, n.sum(MetricEvent::Rt) as i128]);
        }
        None => out.extend([0, 0, 0, 0, 0]),
    }
    let inb = stat::inbound_node();
    out.extend([inb.current_concurrency() as i128, inb.sum(MetricEvent::Pass) as i128,
                inb.sum(MetricEvent::Complete) as i128, inb.sum(MetricEvent::Rt) as i128]);
    out
}
