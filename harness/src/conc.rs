//! C14 cases (one process per case): 2-3 threads build and exit entries on one resource under a forced
//! interleaving of the library's scheduling points, on the virtual clock.
//! case: base_ms fresh(0/1) nthreads { nops (B batch inbound | X)* }*  nsteps (tid dt_ms)* [F]
//!       a trailing F: no forced schedule, the threads run freely in parallel (the point trace is then empty)
//!       a step advances the clock by dt_ms and then lets thread tid run to its next point
//!       fresh: 0 = the resource saw one inbound entry 60 s earlier, 1 = brand new, 2 = one inbound entry at base
//! out : all_done ntrace (tid point)* ; nbuilds (tid node_token batch inbound)* ; nexits (tid batch inbound rt)* ;
//!       final: node_token inflight pass complete rt ; inbound: inflight pass complete rt
//!       (rt of an exit = virtual clock at the exit call - virtual clock at the build call, read by the harness)
use crate::sched;
use crate::util::*;
use sentinel_core::base::{ConcurrencyStat, EntryStrongPtr, MetricEvent, ReadStat, TrafficType};
use sentinel_core::verif::clock;
use sentinel_core::{stat, EntryBuilder};
use std::collections::HashMap;
use std::sync::{Arc, Mutex};

use crate::sched::point_code;

pub fn run_case(t: &mut Toks) -> Vec<i128> {
    let mut out = Vec::new();
    let base = t.u64();
    clock::set_ms(base);
    let fresh = t.u64();
    let name = String::from("conc_res");
    if fresh == 0 || fresh == 2 {
        // the resource (and the inbound node) already exist and have seen traffic in an older window (0)
        // or in the current bucket (2)
        clock::set_ms(if fresh == 0 { base - 60_000 } else { base });
        if let Ok(e) = EntryBuilder::new(name.clone()).with_traffic_type(TrafficType::Inbound).build() {
            e.exit();
        }
        clock::set_ms(base);
    }
    let nt = t.usize();
    let mut progs: Vec<Vec<(u64, u32, u64)>> = Vec::new();
    for _ in 0..nt {
        let k = t.usize();
        let mut p = Vec::new();
        for _ in 0..k {
            match t.s().as_str() {
                "B" => p.push((0, t.u32(), t.u64())),
                _ => p.push((1, 0, 0)),
            }
        }
        progs.push(p);
    }
    let ns = t.usize();
    let steps: Vec<(usize, u64)> = (0..ns).map(|_| (t.usize(), t.u64())).collect();
    let nodes: Arc<Mutex<Vec<(usize, usize, u32, u64, u64)>>> = Arc::new(Mutex::new(Vec::new()));
    let exits: Arc<Mutex<Vec<(usize, u32, u64, u64, u64)>>> = Arc::new(Mutex::new(Vec::new()));
    let mut bodies: Vec<Box<dyn FnOnce() + Send>> = Vec::new();
    for (tid, prog) in progs.into_iter().enumerate() {
        let name = name.clone();
        let nodes = nodes.clone();
        let exits = exits.clone();
        bodies.push(Box::new(move || {
            let mut open: Vec<(EntryStrongPtr, u32, u64, u64)> = Vec::new();
            for (kind, batch, inbound) in prog {
                if kind == 0 {
                    let t0 = sentinel_core::utils::curr_time_millis();
                    let b = EntryBuilder::new(name.clone())
                        .with_batch_count(batch)
                        .with_traffic_type(if inbound == 1 { TrafficType::Inbound } else { TrafficType::Outbound });
                    if let Ok(e) = b.build() {
                        let p = e.context().read().unwrap().stat_node().map(|n| Arc::as_ptr(&n) as *const u8 as usize).unwrap_or(0);
                        let tend = sentinel_core::utils::curr_time_millis();
                        nodes.lock().unwrap().push((tid, p, batch, inbound, tend));
                        open.push((e, batch, inbound, t0 as u64));
                    }
                } else if let Some((e, batch, inbound, t0)) = open.pop() {
                    let t1 = (sentinel_core::utils::curr_time_millis()) as u64;
                    // logged when the exit starts (the order of the list), completed with the time it returned
                    let ix = {
                        let mut g = exits.lock().unwrap();
                        g.push((tid, batch, inbound, t1 - t0, 0));
                        g.len() - 1
                    };
                    e.exit();
                    let tend = sentinel_core::utils::curr_time_millis();
                    exits.lock().unwrap()[ix].4 = tend;
                }
            }
        }));
    }
    let sched_ids: Vec<usize> = steps.iter().map(|s| s.0).collect();
    let dts: Vec<u64> = steps.iter().map(|s| s.1).collect();
    let free = !t.done() && t.s() == "F";
    let (trace, all_done) = if free {
        // real concurrency: all threads start together and run without the scheduler
        let barrier = Arc::new(std::sync::Barrier::new(bodies.len()));
        let hs: Vec<_> = bodies
            .into_iter()
            .map(|b| {
                let barrier = barrier.clone();
                std::thread::spawn(move || {
                    barrier.wait();
                    std::panic::catch_unwind(std::panic::AssertUnwindSafe(b)).is_ok()
                })
            })
            .collect();
        let ok = hs.into_iter().all(|h| h.join().unwrap_or(false));
        (Vec::new(), ok)
    } else {
        sched::run(bodies, &sched_ids, |i| {
        if dts[i] > 0 {
            clock::advance_ns(dts[i] as i128 * 1_000_000);
        }
    }, |n| !n.starts_with("cb:") && !n.starts_with("lk:"))
    };
    out.push(all_done as i128);
    out.push(trace.len() as i128);
    for (tid, p) in &trace {
        out.extend([*tid as i128, point_code(p)]);
    }
    let mut toks: HashMap<usize, i128> = HashMap::new();
    let mut tok = |p: usize| -> i128 {
        let n = toks.len() as i128 + 1;
        *toks.entry(p).or_insert(n)
    };
    let ns = nodes.lock().unwrap().clone();
    out.push(ns.len() as i128);
    for (tid, p, batch, inbound, _) in &ns {
        out.extend([*tid as i128, tok(*p), *batch as i128, *inbound as i128]);
    }
    let xs = exits.lock().unwrap().clone();
    out.push(xs.len() as i128);
    for (tid, batch, inbound, rt, _) in &xs {
        out.extend([*tid as i128, *batch as i128, *inbound as i128, *rt as i128]);
    }
    match stat::get_resource_node(&name) {
        Some(n) => {
            let p = Arc::as_ptr(&n) as *const u8 as usize;
            out.extend([tok(p), n.current_concurrency() as i128, n.sum(MetricEvent::Pass) as i128,
                        n.sum(MetricEvent::Complete) as i128, n.sum(MetricEvent::Rt) as i128]);
        }
        None => out.extend([0, 0, 0, 0, 0]),
    }
    let inb = stat::inbound_node();
    out.extend([inb.current_concurrency() as i128, inb.sum(MetricEvent::Pass) as i128,
                inb.sum(MetricEvent::Complete) as i128, inb.sum(MetricEvent::Rt) as i128]);
    // when each operation had returned (clock relative to the base), builds then exits, in the order of the lists above
    out.push(ns.len() as i128);
    out.extend(ns.iter().map(|x| x.4 as i128 - base as i128));
    out.push(xs.len() as i128);
    out.extend(xs.iter().map(|x| x.4 as i128 - base as i128));
    out
}
