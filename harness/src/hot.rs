//! Hotspot cases: a resource guarded by hotspot rules only, entries through EntryBuilder on the
//! virtual clock; serves C05 (hotspot concurrency), C06, C07 (hotspot pacing).
//!
//! case: tag base_ms nrules { id kind thr burst dur maxq idx key nspec (v t)* }*  ops...
//!       kind: 0 concurrency, 1 qps reject, 2 qps throttling
//! ops : B id nargs(-1 = none) v* natt(-1 = none) (k v)* batch | X id | A dt | Z mode (reload Eq-equal rules; prints nothing)
//! out : n ids..  then  B -> 0 clock | 1 rule snapshot clock ; X -> 2 | 20 ; A -> 3 ; panic -> -1
//!       (clock = virtual ms since base)
use crate::util::*;
use crate::world::{num_id, rule_id_of_msg, snapshot_of_msg};
use sentinel_core::base::EntryStrongPtr;
use sentinel_core::verif::clock;
use sentinel_core::{hotspot, EntryBuilder};
use std::collections::HashMap;
use std::sync::Arc;

fn now_rel(base: u64) -> i128 {
    clock::virtual_now_ns().unwrap() / 1_000_000 - base as i128
}

pub fn run_case(t: &mut Toks) -> Vec<i128> {
    let mut out = Vec::new();
    let tag = t.s();
    let base = t.u64();
    clock::set_ms(base);
    let name = format!("h{}", tag);
    let nr = t.usize();
    let mut specs: Vec<(u64, u64, u64, u64, u64, u64, i64, u64, Vec<(u64, u64)>)> = Vec::new();
    for _ in 0..nr {
        let (id, kind, thr, burst, dur, maxq, idx, key) =
            (t.u64(), t.u64(), t.u64(), t.u64(), t.u64(), t.u64(), t.i64(), t.u64());
        let ns = t.usize();
        let mut sp = Vec::new();
        for _ in 0..ns {
            sp.push((t.u64(), t.u64()));
        }
        specs.push((id, kind, thr, burst, dur, maxq, idx, key, sp));
    }
    let mk = |z: u64, res: &String| -> Vec<Arc<hotspot::Rule>> {
        specs
            .iter()
            .map(|(id, kind, thr, burst, dur, maxq, idx, key, sp)| {
                let mut spec = HashMap::new();
                for (v, th) in sp {
                    spec.insert(format!("v{}", v), *th);
                }
                Arc::new(hotspot::Rule {
                    id: format!("H{}", id + 100000 * z),
                    resource: res.clone(),
                    metric_type: if *kind == 0 { hotspot::MetricType::Concurrency } else { hotspot::MetricType::QPS },
                    control_strategy: if *kind == 2 { hotspot::ControlStrategy::Throttling } else { hotspot::ControlStrategy::Reject },
                    param_index: *idx as isize,
                    param_key: if *key == 0 { String::new() } else { format!("k{}", key) },
                    threshold: *thr,
                    max_queueing_time_ms: *maxq,
                    burst_count: *burst,
                    duration_in_sec: *dur,
                    params_max_capacity: 0,
                    specific_items: spec,
                })
            })
            .collect()
    };
    let rules = mk(0, &name);
    let mut zcount = 0u64;
    let _ = hotspot::load_rules_of_resource(&name, rules);
    let lr = hotspot::get_rules_of_resource(&name);
    out.push(lr.len() as i128);
    out.extend(lr.iter().map(|r| num_id(&r.id)));
    let mut entries: HashMap<u64, EntryStrongPtr> = HashMap::new();
    let mut panicked = false;
    while !t.done() && !panicked {
        match t.s().as_str() {
            "B" => {
                let id = t.u64();
                let na = t.i64();
                let mut b = EntryBuilder::new(name.clone());
                if na >= 0 {
                    let args: Vec<String> = (0..na).map(|_| format!("v{}", t.u64())).collect();
                    b = b.with_args(Some(args));
                }
                let nk = t.i64();
                if nk >= 0 {
                    let mut m = HashMap::new();
                    for _ in 0..nk {
                        let (k, v) = (t.u64(), t.u64());
                        m.insert(format!("k{}", k), format!("v{}", v));
                    }
                    b = b.with_attachments(Some(m));
                }
                let batch = t.u32();
                b = b.with_batch_count(batch);
                match guarded(|| b.build()) {
                    None => {
                        out.push(-1);
                        panicked = true;
                    }
                    Some(Ok(e)) => {
                        out.extend([0, now_rel(base)]);
                        entries.insert(id, e);
                    }
                    Some(Err(e)) => {
                        let m = e.to_string();
                        out.extend([1, rule_id_of_msg(&m), snapshot_of_msg(&m), now_rel(base)]);
                        if block_code_of_msg(&m) != 5 {
                            out.push(-7);
                        }
                    }
                }
            }
            "X" => {
                let id = t.u64();
                match entries.remove(&id) {
                    None => out.push(20),
                    Some(e) => match guarded(|| e.exit()) {
                        Some(_) => out.push(2),
                        None => {
                            out.push(-1);
                            panicked = true;
                        }
                    },
                }
            }
            "A" => {
                let dt = t.u64();
                clock::advance_ns(dt as i128 * 1_000_000);
                out.push(3);
            }
            "Z" => {
                let mode = t.u64();
                zcount += 1;
                let r = guarded(|| {
                    let mut rs = mk(zcount, &name);
                    rs.reverse();
                    if mode == 0 {
                        let _ = hotspot::load_rules_of_resource(&name, rs);
                    } else {
                        if mode == 2 && zcount % 2 == 1 {
                            let other = format!("hz{}", tag);
                            rs.extend(mk(zcount, &other));
                        }
                        hotspot::load_rules(rs);
                    }
                });
                if r.is_none() {
                    out.push(-1);
                    panicked = true;
                }
            }
            x => panic!("bad op {}", x),
        }
    }
    for (_, e) in entries.drain() {
        let _ = guarded(|| e.exit());
    }
    let _ = guarded(|| hotspot::clear_rules_of_resource(&name));
    let other = format!("hz{}", tag);
    let _ = guarded(|| hotspot::clear_rules_of_resource(&other));
    out
}
