//! Rule equality cases: two rules of one family -> (a == b, a.is_stat_reusable(b)).
//! case: tag <rule desc A> <rule desc B>      (ids differ; res kind 1/2 and ref kind give the names)
use crate::rules::*;
use crate::util::*;

pub fn run_case(t: &mut Toks) -> Vec<i128> {
    let tag = t.s();
    let a = parse_rule(t, &tag, "A");
    let b = parse_rule(t, &tag, "B");
    let (e, r) = match (&a, &b) {
        (AnyRule::Flow(x), AnyRule::Flow(y)) => (x == y, x.is_stat_reusable(y)),
        (AnyRule::Hot(x), AnyRule::Hot(y)) => (x == y, x.is_stat_reusable(y)),
        (AnyRule::Cb(x), AnyRule::Cb(y)) => (x == y, x.is_stat_reusable(y)),
        (AnyRule::Iso(x), AnyRule::Iso(y)) => (x == y, false),
        (AnyRule::Sys(x), AnyRule::Sys(y)) => (x == y, false),
        _ => (false, false),
    };
    vec![e as i128, r as i128]
}
