//! Metric-log cases (C19), one process per case (the writer takes its directory from the global configuration).
//! case: base_ms max_size max_files  ops...
//! ops : W ts_rel n (res id)*     write n items (resource r<res>, pass = id) with timestamp base+ts_rel
//!       S b_rel e_rel res        find_by_time_and_resource (res 9 = any) with a fresh searcher
//!       M b_rel max              find_from_time_with_max_lines with a fresh searcher
//!       D                        dump the directory
//!       X k                      emulate a crash during the previous W: keep only the first k bytes it issued
//!                                (index entry first, then the lines); ignored when that W created or removed files
//! out : created(0/2) then per op:
//!       W -> 0 ok | 2 Err | -1 panic          S, M -> n (id sec_rel res)*  | -2 Err | -1 panic
//!       D -> nfiles { day no loglen nidx (sec_rel off)* idxrest nlines (id sec_rel res | -3 0 0)* }*
//!       X -> 5 applied | 6 ignored
use crate::util::*;
use sentinel_core::base::MetricItem;
use sentinel_core::config::{self, ConfigEntity};
use sentinel_core::log::metric::{DefaultMetricLogWriter, DefaultMetricSearcher, MetricLogWriter, MetricSearcher};
use sentinel_core::verif::{clock, metric_item};
use std::fs;
use std::path::PathBuf;

const APP: &str = "vapp";

fn res_of(name: &str) -> i128 {
    name.strip_prefix('r').and_then(|x| x.parse::<i128>().ok()).unwrap_or(-4)
}

fn item_out(i: &MetricItem, base: u64, out: &mut Vec<i128>) {
    let (res, _ty, ts, p, ..) = metric_item::fields(i);
    out.extend([p as i128, (ts / 1000) as i128 - (base / 1000) as i128, res_of(&res)]);
}

/// (day, no, path) of the metric files, by day then number
fn files(dir: &str) -> Vec<(u64, u64, PathBuf)> {
    let mut v = Vec::new();
    if let Ok(rd) = fs::read_dir(dir) {
        for f in rd.flatten() {
            let name = f.file_name().to_string_lossy().to_string();
            if name.ends_with(".idx") || !name.starts_with(&format!("{}-metrics.log.", APP)) {
                continue;
            }
            let rest = &name[format!("{}-metrics.log.", APP).len()..];
            let mut parts = rest.split('.');
            let date = parts.next().unwrap_or("");
            let no = parts.next().and_then(|x| x.parse::<u64>().ok()).unwrap_or(0);
            let d: Vec<u64> = date.split('-').filter_map(|x| x.parse().ok()).collect();
            if d.len() != 3 {
                continue;
            }
            // days since epoch from a civil date
            let (y, m, dd) = (d[0] as i64, d[1] as i64, d[2] as i64);
            let yy = if m <= 2 { y - 1 } else { y };
            let era = yy.div_euclid(400);
            let yoe = yy - era * 400;
            let mp = (m + 9) % 12;
            let doy = (153 * mp + 2) / 5 + dd - 1;
            let doe = yoe * 365 + yoe / 4 - yoe / 100 + doy;
            let days = era * 146097 + doe - 719468;
            v.push((days as u64, no, f.path()));
        }
    }
    v.sort();
    v
}

fn dump(dir: &str, base: u64, out: &mut Vec<i128>) {
    let fs_ = files(dir);
    out.push(fs_.len() as i128);
    for (day, no, path) in fs_ {
        let log = fs::read(&path).unwrap_or_default();
        let idx = fs::read(format!("{}.idx", path.to_string_lossy())).unwrap_or_default();
        out.extend([day as i128, no as i128, log.len() as i128, (idx.len() / 16) as i128]);
        for k in 0..idx.len() / 16 {
            let sec = u64::from_be_bytes(idx[16 * k..16 * k + 8].try_into().unwrap());
            let off = u64::from_be_bytes(idx[16 * k + 8..16 * k + 16].try_into().unwrap());
            out.extend([sec as i128 - (base / 1000) as i128, off as i128]);
        }
        out.push((idx.len() % 16) as i128);
        let text = String::from_utf8_lossy(&log).to_string();
        let lines: Vec<&str> = text.split('\n').filter(|l| !l.is_empty()).collect();
        out.push(lines.len() as i128);
        for l in lines {
            match guarded(|| MetricItem::from_string(l)) {
                Some(Ok(i)) => item_out(&i, base, out),
                _ => out.extend([-3, 0, 0]),
            }
        }
    }
}

fn snapshot(dir: &str) -> Vec<(PathBuf, u64, u64)> {
    files(dir)
        .into_iter()
        .map(|(_, _, p)| {
            let l = fs::metadata(&p).map(|m| m.len()).unwrap_or(0);
            let i = fs::metadata(format!("{}.idx", p.to_string_lossy())).map(|m| m.len()).unwrap_or(0);
            (p, l, i)
        })
        .collect()
}

pub fn run_case(t: &mut Toks) -> Vec<i128> {
    let mut out = Vec::new();
    let base = t.u64();
    let (max_size, max_files) = (t.u64(), t.usize());
    clock::set_ms(base);
    let dir = format!("{}/vh_mlog_{}/", std::env::temp_dir().to_string_lossy(), std::process::id());
    let _ = fs::remove_dir_all(&dir);
    let mut e = ConfigEntity::new();
    e.config.app.app_name = APP.into();
    e.config.log.metric.dir = dir.clone();
    e.config.log.metric.use_pid = false;
    config::reset_global_config(e);
    let mut w = match guarded(|| DefaultMetricLogWriter::new(max_size, max_files)) {
        Some(Ok(w)) => w,
        _ => {
            let _ = fs::remove_dir_all(&dir);
            return vec![2];
        }
    };
    out.push(0);
    let base_name = format!("{}-metrics.log", APP);
    let mut before: Vec<(PathBuf, u64, u64)> = Vec::new();
    while !t.done() {
        let opname = t.s();
        match opname.as_str() {
            "W" => {
                let ts = base + t.u64();
                let n = t.usize();
                let mut items: Vec<MetricItem> = (0..n)
                    .map(|_| {
                        let (r, id) = (t.u64(), t.u64());
                        metric_item::make(format!("r{}", r), 0, 0, id, 1, 2, 0, 3, 0, 1)
                    })
                    .collect();
                before = snapshot(&dir);
                match guarded(|| w.write(ts, &mut items)) {
                    Some(Ok(_)) => out.push(0),
                    Some(Err(_)) => out.push(2),
                    None => {
                        out.push(-1);
                        break;
                    }
                }
            }
            "X" => {
                let k = t.u64();
                let after = snapshot(&dir);
                let same = before.len() == after.len() && before.iter().zip(after.iter()).all(|(a, b)| a.0 == b.0 && a.1 <= b.1 && a.2 <= b.2);
                if !same || after.is_empty() {
                    out.push(6);
                    continue;
                }
                // the one file that grew
                let mut applied = false;
                for (a, b) in before.iter().zip(after.iter()) {
                    if a.1 != b.1 || a.2 != b.2 {
                        let didx = b.2 - a.2;
                        let (keep_idx, keep_log) = if k < didx { (a.2 + k, a.1) } else { (b.2, std::cmp::min(b.1, a.1 + (k - didx))) };
                        let lf = fs::OpenOptions::new().write(true).open(&a.0).unwrap();
                        lf.set_len(keep_log).unwrap();
                        let ip = format!("{}.idx", a.0.to_string_lossy());
                        let f2 = fs::OpenOptions::new().write(true).open(&ip).unwrap();
                        f2.set_len(keep_idx).unwrap();
                        applied = true;
                    }
                }
                out.push(if applied { 5 } else { 6 });
            }
            op @ ("S" | "M") => {
                let is_s = op == "S";
                let searcher = match DefaultMetricSearcher::new(dir.clone(), base_name.clone()) {
                    Ok(s) => s,
                    Err(_) => {
                        out.push(-2);
                        continue;
                    }
                };
                let b = base + t.u64();
                let second = t.u64();
                let r = if is_s {
                    let res = t.u64();
                    let e = base + second;
                    let name = if res == 9 { String::new() } else { format!("r{}", res) };
                    guarded(|| searcher.find_by_time_and_resource(b, e, &name))
                } else {
                    guarded(|| searcher.find_from_time_with_max_lines(b, second as usize))
                };
                match r {
                    None => {
                        out.push(-1);
                        break;
                    }
                    Some(Err(_)) => out.push(-2),
                    Some(Ok(items)) => {
                        out.push(items.len() as i128);
                        for i in &items {
                            item_out(i, base, &mut out);
                        }
                    }
                }
            }
            "D" => dump(&dir, base, &mut out),
            x => panic!("bad op {}", x),
        }
    }
    drop(w);
    let _ = fs::remove_dir_all(&dir);
    out
}
