//! C02: ring of buckets and read-only windows, through the verif hook surface.
//! case:  sc iv nw (wsc wiv)*  then ops:  W t ev n | C t conc | R now
//! out:   ring_ok [win_ok]*  then per op:  W/C -> accepted ; R -> per accepted window
//!        (sum x5, min_rt, max_conc, avg_rt bits, qps(pass) bits) or -1 on panic; then count(pass)
use crate::util::*;
use sentinel_core::verif::{clock, stat::Ring};

pub fn run_case(t: &mut Toks) -> Vec<i128> {
    let mut out = Vec::new();
    let sc = t.u32();
    let iv = t.u32();
    let nw = t.usize();
    let mut wins = Vec::new();
    for _ in 0..nw {
        wins.push((t.u32(), t.u32()));
    }
    let ring = match Ring::new(sc, iv) {
        Some(r) => r,
        None => {
            out.push(0);
            return out;
        }
    };
    out.push(1);
    let mut ws = Vec::new();
    for (wsc, wiv) in wins {
        match ring.window(wsc, wiv) {
            Some(w) => {
                out.push(1);
                ws.push(w);
            }
            None => out.push(0),
        }
    }
    while !t.done() {
        match t.s().as_str() {
            "W" => {
                let (now, ev, n) = (t.u64(), t.u64(), t.u64());
                match guarded(|| ring.add(now, event(ev), n)) {
                    Some(ok) => out.push(ok as i128),
                    None => {
                        out.push(-1);
                        return out;
                    }
                }
            }
            "C" => {
                let (now, c) = (t.u64(), t.u32());
                match guarded(|| ring.conc(now, c)) {
                    Some(ok) => out.push(ok as i128),
                    None => {
                        out.push(-1);
                        return out;
                    }
                }
            }
            "R" => {
                let now = t.u64();
                clock::set_ms(now);
                for w in &ws {
                    let r = guarded(|| {
                        let mut v = Vec::new();
                        for e in EVENTS {
                            v.push(w.sum(now, e) as i128);
                        }
                        let rs = w.read_stat();
                        v.push(rs.min_rt() as u64 as i128);
                        v.push(w.max_concurrency() as i128);
                        v.push(bits(rs.avg_rt()));
                        v.push(bits(w.qps(now, EVENTS[0])));
                        v
                    });
                    match r {
                        Some(v) => out.extend(v),
                        None => out.push(-1),
                    }
                }
                out.push(guarded(|| ring.count(now, EVENTS[0])).map(|x| x as i128).unwrap_or(-1));
            }
            x => panic!("bad op {}", x),
        }
    }
    out
}
