//! Flow throttling cases: a resource guarded by flow throttling rules only, on the virtual
//! nanosecond clock; serves C07 (flow part).
//! case: tag base_ms nrules { id thr_bits maxq_ms stat_ms }*   ops: B batch | A dt_ns | Z mode (reload Eq-equal rules; prints nothing)
//! out : n ids..  then B -> 0 clock_ns | 1 rule clock_ns ; A -> 3 ; panic -> -1   (clock since base)
use crate::util::*;
use crate::world::{num_id, rule_id_of_msg};
use sentinel_core::verif::clock;
use sentinel_core::{flow, EntryBuilder};
use std::sync::Arc;

pub fn run_case(t: &mut Toks) -> Vec<i128> {
    let mut out = Vec::new();
    let tag = t.s();
    let base = t.u64();
    let base_ns = base as i128 * 1_000_000;
    clock::set_ms(base);
    let name = format!("t{}", tag);
    let nr = t.usize();
    let mut specs: Vec<(u64, f64, u32, u32)> = Vec::new();
    for _ in 0..nr {
        specs.push((t.u64(), t.f64bits(), t.u32(), t.u32()));
    }
    let mk = |z: u64, res: &String| -> Vec<Arc<flow::Rule>> {
        specs
            .iter()
            .map(|(id, thr, maxq, stat)| {
                Arc::new(flow::Rule {
                    id: format!("T{}", id + 100000 * z),
                    resource: res.clone(),
                    threshold: *thr,
                    calculate_strategy: flow::CalculateStrategy::Direct,
                    control_strategy: flow::ControlStrategy::Throttling,
                    max_queueing_time_ms: *maxq,
                    stat_interval_ms: *stat,
                    ..Default::default()
                })
            })
            .collect()
    };
    let rules = mk(0, &name);
    let mut zcount = 0u64;
    let _ = flow::load_rules_of_resource(&name, rules);
    let lr = flow::get_rules_of_resource(&name);
    out.push(lr.len() as i128);
    out.extend(lr.iter().map(|r| num_id(&r.id)));
    let mut open = Vec::new();
    while !t.done() {
        match t.s().as_str() {
            "B" => {
                let batch = t.u32();
                let b = EntryBuilder::new(name.clone()).with_batch_count(batch);
                match guarded(|| b.build()) {
                    None => {
                        out.push(-1);
                        break;
                    }
                    Some(Ok(e)) => {
                        out.extend([0, clock::virtual_now_ns().unwrap() - base_ns]);
                        open.push(e);
                    }
                    Some(Err(e)) => {
                        let m = e.to_string();
                        out.extend([1, rule_id_of_msg(&m), clock::virtual_now_ns().unwrap() - base_ns]);
                    }
                }
            }
            "A" => {
                let dt = t.u64();
                clock::advance_ns(dt as i128);
                out.push(3);
            }
            "Z" => {
                let mode = t.u64();
                zcount += 1;
                let r = guarded(|| {
                    let mut rs = mk(zcount, &name);
                    rs.reverse();
                    if mode == 0 {
                        let _ = flow::load_rules_of_resource(&name, rs);
                    } else {
                        if mode == 2 && zcount % 2 == 1 {
                            let other = format!("tz{}", tag);
                            rs.extend(mk(zcount, &other));
                        }
                        flow::load_rules(rs);
                    }
                });
                if r.is_none() {
                    out.push(-1);
                    break;
                }
            }
            x => panic!("bad op {}", x),
        }
    }
    for e in open.drain(..) {
        let _ = guarded(|| e.exit());
    }
    let _ = guarded(|| flow::clear_rules_of_resource(&name));
    let other = format!("tz{}", tag);
    let _ = guarded(|| flow::clear_rules_of_resource(&other));
    out
}
