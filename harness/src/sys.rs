//! System-protection cases (C09); one process per case (system rules and the inbound node are global).
//! case: base_ms nrules { id metric(0 Load,1 AvgRT,2 Concurrency,3 InboundQPS,4 Cpu) bbr thr_bits }*
//! ops : B id batch inbound | X id | A dt | L load_bits | C cpu_bits(f64 bits of an f32-exact value)
//! out : n ids.. then B -> 0 | 1 rule value_bits ; X -> 2 | 20 ; A/L/C -> 3 ; panic -> -1
use crate::util::*;
use crate::world::{num_id, rule_id_of_msg};
use sentinel_core::base::{EntryStrongPtr, TrafficType};
use sentinel_core::system;
use sentinel_core::system_metric::verif_set;
use sentinel_core::verif::clock;
use sentinel_core::EntryBuilder;
use std::collections::HashMap;
use std::sync::Arc;

fn snapshot_bits(msg: &str) -> i128 {
    let key = "snapshot_value: Some(";
    match msg.find(key) {
        None => -2,
        Some(p) => {
            let rest = &msg[p + key.len()..];
            let end = rest.find(')').unwrap_or(rest.len());
            match rest[..end].parse::<f64>() {
                Ok(x) => x.to_bits() as i128,
                Err(_) => -3,
            }
        }
    }
}

pub fn run_case(t: &mut Toks) -> Vec<i128> {
    let mut out = Vec::new();
    let base = t.u64();
    clock::set_ms(base);
    verif_set::system_load(0.0);
    verif_set::cpu_usage(0.0);
    let nr = t.usize();
    let mut rules = Vec::new();
    for _ in 0..nr {
        let (id, metric, bbr, thr) = (t.u64(), t.u64(), t.u64(), t.f64bits());
        rules.push(Arc::new(system::Rule {
            id: format!("S{}", id),
            metric_type: match metric {
                0 => system::MetricType::Load,
                1 => system::MetricType::AvgRT,
                2 => system::MetricType::Concurrency,
                3 => system::MetricType::InboundQPS,
                _ => system::MetricType::CpuUsage,
            },
            strategy: if bbr == 1 { system::AdaptiveStrategy::BBR } else { system::AdaptiveStrategy::NoAdaptive },
            threshold: thr,
        }));
    }
    system::load_rules(rules);
    let lr = system::get_rules();
    out.push(lr.len() as i128);
    out.extend(lr.iter().map(|r| num_id(&r.id)));
    let mut entries: HashMap<u64, EntryStrongPtr> = HashMap::new();
    while !t.done() {
        match t.s().as_str() {
            "B" => {
                let (id, batch, inbound) = (t.u64(), t.u32(), t.u64());
                let b = EntryBuilder::new("sysres".into())
                    .with_batch_count(batch)
                    .with_traffic_type(if inbound == 1 { TrafficType::Inbound } else { TrafficType::Outbound });
                match guarded(|| b.build()) {
                    None => {
                        out.push(-1);
                        break;
                    }
                    Some(Ok(e)) => {
                        out.push(0);
                        entries.insert(id, e);
                    }
                    Some(Err(e)) => {
                        let m = e.to_string();
                        out.extend([1, rule_id_of_msg(&m), snapshot_bits(&m)]);
                        if block_code_of_msg(&m) != 4 {
                            out.push(-7);
                        }
                    }
                }
            }
            "X" => {
                let id = t.u64();
                match entries.remove(&id) {
                    None => out.push(20),
                    Some(e) => match guarded(|| e.exit()) {
                        Some(_) => out.push(2),
                        None => {
                            out.push(-1);
                            break;
                        }
                    },
                }
            }
            "A" => {
                clock::advance_ns(t.u64() as i128 * 1_000_000);
                out.push(3);
            }
            "L" => {
                verif_set::system_load(t.f64bits());
                out.push(3);
            }
            "C" => {
                verif_set::cpu_usage(t.f64bits() as f32);
                out.push(3);
            }
            x => panic!("bad op {}", x),
        }
    }
    out
}
