//! System-protection cases (C09); one process per case (system rules and the inbound node are global).
//! case: base_ms nrules { id metric(0 Load,1 AvgRT,2 Concurrency,3 InboundQPS,4 Cpu) bbr thr_bits }*
//! ops : B id batch inbound | X id | A dt | L load_bits | C cpu_bits(f64 bits of an f32-exact value)
//! out : n ids.. then B -> 0 | 1 rule value_bits ; X -> 2 | 20 ; A/L/C -> 3 ; panic -> -1
use crate::util::*;
use crate::world::{num_id, rule_id_of_msg};
use sentinel_core::base::{EntryStrongPtr, TrafficType};
use sentinel_core::system;
use sentinel_core::system_metric::verif_set;
use sentinel_core::verif::clock;
use sentinel_core::EntryBuilder;
use std::collections::HashMap;
use std::sync::Arc;

fn snapshot_bits(msg: &str) -> i128 {
    let key = "snapshot_value: Some(";
    match msg.find(key) {
        None => -2,
        Some(p) => {
            let rest = &msg[p + key.len()..];
            let end = rest.find(')').unwrap_or(rest.len());
            match rest[..end].parse::<f64>() {
                Ok(x) => x.to_bits() as i128,
                Err(_) => -3,
            }
        }
    }
}

/// a statistics slot that reads the value a block carries the way a consumer does: as an f64
struct ValueSlot {}
static LAST_VALUE: std::sync::Mutex<Option<i128>> = std::sync::Mutex::new(None);
impl sentinel_core::base::BaseSlot for ValueSlot {
    fn order(&self) -> u32 {
        9500
    }
}
impl sentinel_core::base::StatSlot for ValueSlot {
    fn on_entry_pass(&self, _ctx: &sentinel_core::base::EntryContext) {}
    fn on_entry_blocked(&self, _ctx: &sentinel_core::base::EntryContext, e: sentinel_core::base::BlockError) {
        let v = e
            .triggered_value()
            .and_then(|s| s.as_any().downcast_ref::<f64>().map(|x| x.to_bits() as i128));
        *LAST_VALUE.lock().unwrap() = Some(v.unwrap_or(-3));
    }
    fn on_completed(&self, _ctx: &mut sentinel_core::base::EntryContext) {}
}

pub fn run_case(t: &mut Toks) -> Vec<i128> {
    let mut out = Vec::new();
    let custom = Arc::new(sentinel_core::verif::chain::standard_plus(vec![], vec![Arc::new(ValueSlot {})]));
    let base = t.u64();
    clock::set_ms(base);
    verif_set::system_load(0.0);
    verif_set::cpu_usage(0.0);
    let nr = t.usize();
    let mut rules = Vec::new();
    for _ in 0..nr {
        let (id, metric, bbr, thr) = (t.u64(), t.u64(), t.u64(), t.f64bits());
        rules.push(Arc::new(system::Rule {
            id: format!("S{}", id),
            metric_type: match metric {
                0 => system::MetricType::Load,
                1 => system::MetricType::AvgRT,
                2 => system::MetricType::Concurrency,
                3 => system::MetricType::InboundQPS,
                _ => system::MetricType::CpuUsage,
            },
            strategy: if bbr == 1 { system::AdaptiveStrategy::BBR } else { system::AdaptiveStrategy::NoAdaptive },
            threshold: thr,
        }));
    }
    system::load_rules(rules);
    let lr = system::get_rules();
    out.push(lr.len() as i128);
    out.extend(lr.iter().map(|r| num_id(&r.id)));
    let mut entries: HashMap<u64, EntryStrongPtr> = HashMap::new();
    while !t.done() {
        match t.s().as_str() {
            "B" => {
                let (id, batch, inbound) = (t.u64(), t.u32(), t.u64());
                *LAST_VALUE.lock().unwrap() = None;
                let b = EntryBuilder::new("sysres".into())
                    .with_slot_chain(custom.clone())
                    .with_batch_count(batch)
                    .with_traffic_type(if inbound == 1 { TrafficType::Inbound } else { TrafficType::Outbound });
                match guarded(|| b.build()) {
                    None => {
                        out.push(-1);
                        break;
                    }
                    Some(Ok(e)) => {
                        out.push(0);
                        entries.insert(id, e);
                    }
                    Some(Err(e)) => {
                        let m = e.to_string();
                        // the value as an f64 seen by a statistics slot; it must also be what the message shows
                        let seen = LAST_VALUE.lock().unwrap().unwrap_or(-3);
                        let shown = snapshot_bits(&m);
                        out.extend([1, rule_id_of_msg(&m), if seen == shown { seen } else { -3 }]);
                        if block_code_of_msg(&m) != 4 {
                            out.push(-7);
                        }
                    }
                }
            }
            "X" => {
                let id = t.u64();
                match entries.remove(&id) {
                    None => out.push(20),
                    Some(e) => match guarded(|| e.exit()) {
                        Some(_) => out.push(2),
                        None => {
                            out.push(-1);
                            break;
                        }
                    },
                }
            }
            "A" => {
                clock::advance_ns(t.u64() as i128 * 1_000_000);
                out.push(3);
            }
            "L" => {
                verif_set::system_load(t.f64bits());
                out.push(3);
            }
            "C" => {
                verif_set::cpu_usage(t.f64bits() as f32);
                out.push(3);
            }
            x => panic!("bad op {}", x),
        }
    }
    out
}
