//! Configuration cases (C17); one process per case (the configuration is process-global).
//! case: mode(0 entity, 1 yaml, 2 the public init_with_config called after an earlier init_with_config of the defaults)
//!       sc_total iv_total sc iv flush(metric log flush interval, 0 = metric log off)
//! out : accepted(0/1) ; if accepted:
//!       main reads (sc_total iv_total sc iv) ; a thread spawned afterwards reads (4) ;
//!       a worker thread that had already read the configuration before it was installed reads (4) ;
//!       build+exit on the main thread (0 ok / -1 panic), node geometry (4) ;
//!       build+exit on another thread (0 / -1), node geometry (4)
use crate::util::*;
use sentinel_core::config::{self, ConfigEntity};
use sentinel_core::verif::{clock, node};
use sentinel_core::EntryBuilder;

fn reads() -> Vec<i128> {
    vec![
        config::global_stat_sample_count_total() as i128,
        config::global_stat_interval_ms_total() as i128,
        config::metric_stat_sample_count() as i128,
        config::metric_stat_interval_ms() as i128,
    ]
}

fn touch(name: String) -> Vec<i128> {
    let r = guarded(|| {
        let e = EntryBuilder::new(name.clone()).build();
        if let Ok(e) = e {
            e.exit();
        }
    });
    let mut v = vec![if r.is_some() { 0 } else { -1 }];
    match node::geometry(&name) {
        Some((a, b, c, d)) => v.extend([a as i128, b as i128, c as i128, d as i128]),
        None => v.extend([-1, -1, -1, -1]),
    }
    v
}

pub fn run_case(t: &mut Toks) -> Vec<i128> {
    let mut out = Vec::new();
    clock::set_ms(1_700_000_000_000);
    let mode = t.u64();
    let (sct, ivt, sc, iv) = (t.u32(), t.u32(), t.u32(), t.u32());
    let flush = t.u32();
    // a long-lived worker that reads the configuration before it is installed, and again afterwards
    let (to_worker, worker_rx) = std::sync::mpsc::channel::<()>();
    let (worker_tx, from_worker) = std::sync::mpsc::channel::<Vec<i128>>();
    let worker = std::thread::spawn(move || {
        let _ = worker_tx.send(reads());
        if worker_rx.recv().is_ok() {
            let _ = worker_tx.send(reads());
        }
    });
    let _ = from_worker.recv();
    let quiet = |e: &mut ConfigEntity| {
        // no background collectors, metric log as the case says
        e.config.log.metric.flush_interval_sec = flush;
        e.config.stat.system.system_interval_ms = 0;
        e.config.stat.system.load_interval_ms = 0;
        e.config.stat.system.cpu_interval_ms = 0;
        e.config.stat.system.memory_interval_ms = 0;
    };
    let accepted = if mode == 2 {
        let mut e0 = ConfigEntity::new();
        quiet(&mut e0);
        e0.config.log.metric.flush_interval_sec = 0;
        let first = sentinel_core::init_with_config(e0).is_ok();
        let mut e = ConfigEntity::new();
        quiet(&mut e);
        e.config.log.metric.flush_interval_sec = 0;
        e.config.stat.sample_count_total = sct;
        e.config.stat.interval_ms_total = ivt;
        e.config.stat.sample_count = sc;
        e.config.stat.interval_ms = iv;
        first && sentinel_core::init_with_config(e).is_ok()
    } else if mode == 0 {
        let mut e = ConfigEntity::new();
        e.config.log.metric.flush_interval_sec = flush;
        e.config.stat.sample_count_total = sct;
        e.config.stat.interval_ms_total = ivt;
        e.config.stat.sample_count = sc;
        e.config.stat.interval_ms = iv;
        match e.check() {
            Ok(_) => {
                config::reset_global_config(e);
                true
            }
            Err(_) => false,
        }
    } else {
        // the YAML route: serialise the default entity with the four values replaced
        let mut e = ConfigEntity::new();
        e.config.log.metric.flush_interval_sec = flush;
        e.config.stat.sample_count_total = sct;
        e.config.stat.interval_ms_total = ivt;
        e.config.stat.sample_count = sc;
        e.config.stat.interval_ms = iv;
        let text = serde_yaml_text(&e);
        let dir = std::env::temp_dir().join(format!("vh_cfg_{}", std::process::id()));
        let _ = std::fs::create_dir_all(&dir);
        let path = dir.join("sentinel.yaml");
        std::fs::write(&path, text).unwrap();
        let mut p = path.to_string_lossy().to_string();
        let ok = config::init_config_with_yaml(&mut p).is_ok();
        let _ = std::fs::remove_dir_all(&dir);
        ok
    };
    out.push(accepted as i128);
    if !accepted {
        // a rejected configuration must leave the one in effect untouched
        out.extend(reads());
        return out;
    }
    out.extend(reads());
    let other = std::thread::spawn(reads).join().unwrap_or_else(|_| vec![-1; 4]);
    out.extend(other);
    let _ = to_worker.send(());
    out.extend(from_worker.recv().unwrap_or_else(|_| vec![-1; 4]));
    let _ = worker.join();
    out.extend(touch("cfg_main".into()));
    let o2 = std::thread::spawn(|| touch("cfg_other".into())).join().unwrap_or_else(|_| vec![-1; 5]);
    out.extend(o2);
    out
}

fn serde_yaml_text(e: &ConfigEntity) -> String {
    // ConfigEntity is Serialize; serde_json's output is valid YAML
    serde_json::to_string(e).unwrap()
}
