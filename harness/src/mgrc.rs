//! C15 cases (one process per case): threads call the rule managers of the five families and build /
//! exit entries under a forced interleaving of the scheduling points placed before every lock
//! acquisition of the managers and the node store.
//! case: npool { id res key }*  nsetup op*  nthreads { nops op* }*  nsteps tid*
//! ops : L fam n ix* | R fam res n ix* | P fam ix | C fam | K fam res | G fam | Q fam res | B res | E res
//!       E res: trip the breaker of the resource (an entry that fails; needs a rule of key 11), wait for the retry
//!       time, then build an entry that the breaker admits as its probe and a later slot rejects
//!       fam: 0 flow, 1 hotspot, 2 breaker, 3 isolation, 4 system (L, P, C, G only)
//! out : verdict(0 finished, 1 deadlock) npanics (tid)* ; nhealth (ok)* ; nprofile (lock mode heldmask)*
//!       the profile (lock about to be taken, locks held then) is reported for single-thread cases only
use crate::sched;
use crate::util::*;
use sentinel_core::verif::locks;
use sentinel_core::{circuitbreaker as cb, flow, hotspot, isolation, system, EntryBuilder};
use std::sync::{Arc, Mutex};

#[derive(Clone)]
struct PR {
    id: u64,
    res: u64,
    key: u64,
}

#[derive(Clone)]
enum Op {
    L(u64, Vec<PR>),
    R(u64, u64, Vec<PR>),
    P(u64, PR),
    C(u64),
    K(u64, u64),
    G(u64),
    Q(u64, u64),
    B(u64),
    E(u64),
}

thread_local! { static REJECT: std::cell::Cell<bool> = std::cell::Cell::new(false); }

/// a slot after the breaker slot that rejects the entries marked for it
struct OracleSlot {}
impl sentinel_core::base::BaseSlot for OracleSlot {
    fn order(&self) -> u32 {
        9000
    }
}
impl sentinel_core::base::RuleCheckSlot for OracleSlot {
    fn check(&self, ctx: &mut sentinel_core::base::EntryContext) -> sentinel_core::base::TokenResult {
        if REJECT.with(|r| r.get()) {
            sentinel_core::base::TokenResult::new_blocked(sentinel_core::base::BlockType::Other(0))
        } else {
            ctx.result().clone()
        }
    }
}

fn oracle_chain() -> Arc<sentinel_core::base::SlotChain> {
    static CHAIN: Mutex<Option<Arc<sentinel_core::base::SlotChain>>> = Mutex::new(None);
    let mut g = CHAIN.lock().unwrap();
    g.get_or_insert_with(|| Arc::new(sentinel_core::verif::chain::standard_plus(vec![Arc::new(OracleSlot {})], vec![])))
        .clone()
}

fn name(res: u64) -> String {
    if res == 0 {
        String::new()
    } else {
        format!("mc_{}", res)
    }
}

fn flow_rule(p: &PR) -> Arc<flow::Rule> {
    let valid = p.key % 5 != 0;
    Arc::new(flow::Rule {
        id: format!("M{}", p.id),
        resource: name(p.res),
        threshold: if valid { 1000.0 + p.key as f64 } else { -(p.key as f64) - 1.0 },
        stat_interval_ms: 1000 * ((p.key % 2) as u32 + 2),
        ..Default::default()
    })
}
fn hot_rule(p: &PR) -> Arc<hotspot::Rule> {
    let valid = p.key % 5 != 0;
    Arc::new(hotspot::Rule {
        id: format!("M{}", p.id),
        resource: name(p.res),
        metric_type: hotspot::MetricType::QPS,
        threshold: 1000 + p.key,
        duration_in_sec: if valid { p.key % 2 + 1 } else { 0 },
        ..Default::default()
    })
}
fn cb_rule(p: &PR) -> Arc<cb::Rule> {
    if p.key == 11 {
        // a breaker that opens at the first failed request and may probe 5 ms later
        return Arc::new(cb::Rule {
            id: format!("M{}", p.id),
            resource: name(p.res),
            strategy: cb::BreakerStrategy::ErrorCount,
            retry_timeout_ms: 5,
            min_request_amount: 1,
            stat_interval_ms: 1000,
            threshold: 1.0,
            ..Default::default()
        });
    }
    let valid = p.key % 5 != 0;
    Arc::new(cb::Rule {
        id: format!("M{}", p.id),
        resource: name(p.res),
        // key 12: a custom strategy whose generator (registered in run_case) reads the manager while it builds
        strategy: if p.key == 12 { cb::BreakerStrategy::Custom(1) } else { cb::BreakerStrategy::ErrorCount },
        retry_timeout_ms: if valid { 1000 } else { 0 },
        min_request_amount: 1000 + p.key,
        stat_interval_ms: 1000 * ((p.key % 2) as u32 + 1),
        threshold: if p.key == 12 { 0.5 } else { 1000.0 },
        ..Default::default()
    })
}
fn iso_rule(p: &PR) -> Arc<isolation::Rule> {
    let valid = p.key % 5 != 0;
    Arc::new(isolation::Rule {
        id: format!("M{}", p.id),
        resource: name(p.res),
        threshold: if valid { 1000 + p.key as u32 } else { 0 },
        ..Default::default()
    })
}
fn sys_rule(p: &PR) -> Arc<system::Rule> {
    let valid = p.key % 5 != 0;
    Arc::new(system::Rule {
        id: format!("M{}", p.id),
        metric_type: system::MetricType::InboundQPS,
        threshold: if valid { 100000.0 + p.key as f64 } else { -1.0 },
        ..Default::default()
    })
}

fn parse_op(t: &mut Toks, pool: &[PR]) -> Op {
    let pick = |t: &mut Toks| -> Vec<PR> {
        let n = t.usize();
        (0..n).map(|_| pool[t.usize()].clone()).collect()
    };
    match t.s().as_str() {
        "L" => {
            let f = t.u64();
            Op::L(f, pick(t))
        }
        "R" => {
            let f = t.u64();
            let r = t.u64();
            Op::R(f, r, pick(t))
        }
        "P" => {
            let f = t.u64();
            Op::P(f, pool[t.usize()].clone())
        }
        "C" => Op::C(t.u64()),
        "K" => {
            let f = t.u64();
            Op::K(f, t.u64())
        }
        "G" => Op::G(t.u64()),
        "Q" => {
            let f = t.u64();
            Op::Q(f, t.u64())
        }
        "B" => Op::B(t.u64()),
        "E" => Op::E(t.u64()),
        x => panic!("bad op {}", x),
    }
}

fn exec(op: &Op) {
    match op {
        Op::L(f, ps) => match f {
            0 => {
                flow::load_rules(ps.iter().map(flow_rule).collect());
            }
            1 => {
                hotspot::load_rules(ps.iter().map(hot_rule).collect());
            }
            2 => {
                cb::load_rules(ps.iter().map(cb_rule).collect());
            }
            3 => isolation::load_rules(ps.iter().map(iso_rule).collect()),
            _ => {
                system::load_rules(ps.iter().map(sys_rule).collect());
            }
        },
        Op::R(f, r, ps) => {
            let nm = name(*r);
            match f {
                0 => {
                    let _ = flow::load_rules_of_resource(&nm, ps.iter().map(flow_rule).collect());
                }
                1 => {
                    let _ = hotspot::load_rules_of_resource(&nm, ps.iter().map(hot_rule).collect());
                }
                2 => {
                    let _ = cb::load_rules_of_resource(&nm, ps.iter().map(cb_rule).collect());
                }
                _ => {
                    let _ = isolation::load_rules_of_resource(&nm, ps.iter().map(iso_rule).collect());
                }
            }
        }
        Op::P(f, p) => match f {
            0 => {
                flow::append_rule(flow_rule(p));
            }
            1 => {
                hotspot::append_rule(hot_rule(p));
            }
            2 => {
                cb::append_rule(cb_rule(p));
            }
            3 => {
                isolation::append_rule(iso_rule(p));
            }
            _ => {
                system::append_rule(sys_rule(p));
            }
        },
        Op::C(f) => match f {
            0 => flow::clear_rules(),
            1 => hotspot::clear_rules(),
            2 => cb::clear_rules(),
            3 => isolation::clear_rules(),
            _ => system::clear_rules(),
        },
        Op::K(f, r) => {
            let nm = name(*r);
            match f {
                0 => flow::clear_rules_of_resource(&nm),
                1 => hotspot::clear_rules_of_resource(&nm),
                2 => cb::clear_rules_of_resource(&nm),
                _ => isolation::clear_rules_of_resource(&nm),
            }
        }
        Op::G(f) => match f {
            0 => {
                flow::get_rules();
            }
            1 => {
                hotspot::get_rules();
            }
            2 => {
                cb::get_rules();
            }
            3 => {
                isolation::get_rules();
            }
            _ => {
                system::get_rules();
            }
        },
        Op::Q(f, r) => {
            let nm = name(*r);
            match f {
                0 => {
                    flow::get_rules_of_resource(&nm);
                }
                1 => {
                    hotspot::get_rules_of_resource(&nm);
                }
                2 => {
                    cb::get_rules_of_resource(&nm);
                }
                _ => {
                    isolation::get_rules_of_resource(&nm);
                }
            }
        }
        Op::B(r) => {
            let nm = name(*r);
            if nm.is_empty() {
                return;
            }
            if let Ok(e) = EntryBuilder::new(nm)
                .with_traffic_type(sentinel_core::base::TrafficType::Inbound)
                .with_args(Some(vec!["a".into()]))
                .build()
            {
                e.exit();
            }
        }
        Op::E(r) => {
            let nm = name(*r);
            if nm.is_empty() {
                return;
            }
            let chain = oracle_chain();
            if let Ok(e) = EntryBuilder::new(nm.clone()).with_slot_chain(chain.clone()).build() {
                e.set_err(sentinel_core::Error::msg("biz error"));
                e.exit();
            }
            std::thread::sleep(std::time::Duration::from_millis(8));
            REJECT.with(|x| x.set(true));
            let res = EntryBuilder::new(nm).with_slot_chain(chain).build();
            REJECT.with(|x| x.set(false));
            if let Ok(e) = res {
                e.exit();
            }
        }
    }
}

const LOCKS: [&str; 17] = [
    "flow.GEN_FUN_MAP", "flow.CONTROLLER_MAP", "flow.RULE_MAP",
    "hotspot.GEN_FUN_MAP", "hotspot.CONTROLLER_MAP", "hotspot.RULE_MAP",
    "circuitbreaker.GEN_FUN_MAP", "circuitbreaker.STATE_CHANGE_LISTERNERS", "circuitbreaker.BREAKER_MAP",
    "circuitbreaker.CURRENT_RULES", "circuitbreaker.BREAKER_RULES",
    "isolation.RULE_MAP", "isolation.CURRENT_RULES",
    "system.RULE_MAP", "system.CURRENT_RULES",
    "stat.RESOURCE_NODE_MAP",
    "circuitbreaker.breaker_state",
];

/// a listener that looks at the rules when a breaker goes away (re-enters the manager from a callback)
struct DropListener {}
impl cb::StateChangeListener for DropListener {
    fn on_transform_to_closed(&self, _prev: cb::State, _rule: Arc<cb::Rule>) {}
    fn on_transform_to_open(&self, _prev: cb::State, _rule: Arc<cb::Rule>, _s: Option<Arc<sentinel_core::base::Snapshot>>) {}
    fn on_transform_to_half_open(&self, _prev: cb::State, _rule: Arc<cb::Rule>) {}
    fn on_circuit_breaker_drop(&self, _prev: cb::State, rule: Arc<cb::Rule>) {
        let _ = cb::get_rules_of_resource(&rule.resource);
    }
}

pub fn run_case(t: &mut Toks) -> Vec<i128> {
    let mut out = Vec::new();
    cb::register_state_change_listeners(vec![Arc::new(DropListener {})]);
    // a custom breaker generator that calls back into read-only manager functions
    let _ = cb::set_circuit_breaker_generator(
        cb::BreakerStrategy::Custom(1),
        Box::new(|rule: Arc<cb::Rule>, _stat| -> Arc<dyn cb::CircuitBreakerTrait> {
            let _ = cb::get_rules_of_resource(&rule.resource);
            let _ = cb::get_rules();
            Arc::new(cb::ErrorCountBreaker::new(rule))
        }),
    );
    let np = t.usize();
    let pool: Vec<PR> = (0..np).map(|_| PR { id: t.u64(), res: t.u64(), key: t.u64() }).collect();
    let nsetup = t.usize();
    for _ in 0..nsetup {
        let op = parse_op(t, &pool);
        if guarded(|| exec(&op)).is_none() {
            return vec![-8];
        }
    }
    let nt = t.usize();
    let mut progs: Vec<Vec<Op>> = Vec::new();
    for _ in 0..nt {
        let k = t.usize();
        progs.push((0..k).map(|_| parse_op(t, &pool)).collect());
    }
    let ns = t.usize();
    let steps: Vec<usize> = (0..ns).map(|_| t.usize()).collect();
    let panics: Arc<Mutex<Vec<i128>>> = Arc::new(Mutex::new(Vec::new()));
    let profile: Arc<Mutex<Vec<[i128; 3]>>> = Arc::new(Mutex::new(Vec::new()));
    let mut bodies: Vec<Box<dyn FnOnce() + Send>> = Vec::new();
    for (tid, prog) in progs.into_iter().enumerate() {
        let panics = panics.clone();
        bodies.push(Box::new(move || {
            for op in prog {
                if std::panic::catch_unwind(std::panic::AssertUnwindSafe(|| exec(&op))).is_err() {
                    panics.lock().unwrap().push(tid as i128);
                    break;
                }
            }
        }));
    }
    let on_point: Option<Arc<dyn Fn(usize, &'static str) + Send + Sync>> = if nt == 1 {
        let profile = profile.clone();
        Some(Arc::new(move |_tid, name: &'static str| {
            // "lk:<module>.<LOCK>:<mode>"
            let body = &name[3..];
            let (lock, mode) = body.rsplit_once(':').unwrap();
            let li = LOCKS.iter().position(|l| *l == lock).map(|x| x as i128).unwrap_or(-1);
            let mi = match mode {
                "lock" => 0,
                "read" => 1,
                _ => 2,
            };
            let mut mask: i128 = 0;
            for (nm, held) in locks::held() {
                if held {
                    if let Some(k) = LOCKS.iter().position(|l| *l == nm) {
                        mask |= 1 << k;
                    }
                }
            }
            profile.lock().unwrap().push([li, mi, mask]);
        }))
    } else {
        None
    };
    let (_trace, verdict) = sched::run_blocking(bodies, &steps, |n| n.starts_with("lk:"), on_point, 150, 1500);
    out.push(verdict);
    let ps = panics.lock().unwrap().clone();
    out.push(ps.len() as i128);
    out.extend(ps);
    // health of every manager afterwards
    let mut health: Vec<i128> = Vec::new();
    if verdict == 0 {
        for fam in 0..5u64 {
            let ok = guarded(|| {
                exec(&Op::G(fam));
                exec(&Op::L(fam, vec![]));
                exec(&Op::C(fam));
            })
            .is_some();
            health.push(ok as i128);
        }
        health.push(guarded(|| exec(&Op::B(1))).is_some() as i128);
    }
    out.push(health.len() as i128);
    out.extend(health);
    let pf = profile.lock().unwrap().clone();
    out.push(pf.len() as i128);
    for e in pf {
        out.extend(e);
    }
    out
}
