//! Circuit-breaker cases: a resource guarded by breakers only (plus an oracle slot that can
//! reject an entry), on the virtual clock; serves C03.
//! case: tag base_ms nrules { id strategy retry min_req interval buckets max_rt thr_bits }*
//! ops : B id other(0/1) | X id err(0/1) | A dt | Z mode (reload Eq-equal rules; prints nothing)
//! out : n ids.. then per op:  code [btype] ntr (rule from to)*  then (state retry_rel)* per breaker
//!       code: 0 admit, 1 block, 2 exited, 20 no entry, 3 tick ; states 0 Closed 1 HalfOpen 2 Open
use crate::util::*;
use crate::world::num_id;
use sentinel_core::base::{BaseSlot, BlockType, EntryContext, EntryStrongPtr, RuleCheckSlot, Snapshot, TokenResult};
use sentinel_core::circuitbreaker as cb;
use sentinel_core::verif::{chain, clock};
use sentinel_core::EntryBuilder;
use std::collections::HashMap;
use std::sync::atomic::{AtomicBool, Ordering};
use std::sync::{Arc, Mutex, Once};

static ORACLE: AtomicBool = AtomicBool::new(false);
static LOG: Mutex<Vec<[i128; 3]>> = Mutex::new(Vec::new());
static REGISTER: Once = Once::new();

struct OracleSlot {}
impl BaseSlot for OracleSlot {
    fn order(&self) -> u32 {
        9000
    }
}
impl RuleCheckSlot for OracleSlot {
    fn check(&self, ctx: &mut EntryContext) -> TokenResult {
        if ORACLE.load(Ordering::SeqCst) {
            TokenResult::new_blocked(BlockType::Other(0))
        } else {
            ctx.result().clone()
        }
    }
}

fn st(s: cb::State) -> i128 {
    match s {
        cb::State::Closed => 0,
        cb::State::HalfOpen => 1,
        cb::State::Open => 2,
    }
}

struct Listener {}
impl cb::StateChangeListener for Listener {
    fn on_transform_to_closed(&self, prev: cb::State, rule: Arc<cb::Rule>) {
        LOG.lock().unwrap().push([num_id(&rule.id), st(prev), 0]);
    }
    fn on_transform_to_open(&self, prev: cb::State, rule: Arc<cb::Rule>, _s: Option<Arc<Snapshot>>) {
        LOG.lock().unwrap().push([num_id(&rule.id), st(prev), 2]);
    }
    fn on_transform_to_half_open(&self, prev: cb::State, rule: Arc<cb::Rule>) {
        LOG.lock().unwrap().push([num_id(&rule.id), st(prev), 1]);
    }
    fn on_circuit_breaker_drop(&self, _prev: cb::State, _rule: Arc<cb::Rule>) {}
}

fn flush(out: &mut Vec<i128>, name: &String, base: u64) {
    let ev: Vec<[i128; 3]> = LOG.lock().unwrap().drain(..).collect();
    out.push(ev.len() as i128);
    for e in ev {
        out.extend(e);
    }
    for b in cb::get_breakers_of_resource(name) {
        out.push(st(b.current_state()));
        let r = b.next_retry_timestamp_ms();
        out.push(if r == 0 { -1 } else { r as i128 - base as i128 });
    }
}

pub fn run_case(t: &mut Toks) -> Vec<i128> {
    REGISTER.call_once(|| cb::register_state_change_listeners(vec![Arc::new(Listener {})]));
    let mut out = Vec::new();
    let tag = t.s();
    let base = t.u64();
    clock::set_ms(base);
    let name = format!("b{}", tag);
    let nr = t.usize();
    let mut specs: Vec<(u64, u64, u32, u64, u32, u32, u64, f64)> = Vec::new();
    for _ in 0..nr {
        specs.push((t.u64(), t.u64(), t.u32(), t.u64(), t.u32(), t.u32(), t.u64(), t.f64bits()));
    }
    let mk = |z: u64, res: &String| -> Vec<Arc<cb::Rule>> {
        specs
            .iter()
            .map(|(id, strat, retry, minr, iv, buckets, maxrt, thr)| {
                Arc::new(cb::Rule {
                    id: format!("B{}", id + 100000 * z),
                    resource: res.clone(),
                    strategy: match strat {
                        0 => cb::BreakerStrategy::SlowRequestRatio,
                        1 => cb::BreakerStrategy::ErrorRatio,
                        _ => cb::BreakerStrategy::ErrorCount,
                    },
                    retry_timeout_ms: *retry,
                    min_request_amount: *minr,
                    stat_interval_ms: *iv,
                    stat_sliding_window_bucket_count: *buckets,
                    max_allowed_rt_ms: *maxrt,
                    threshold: *thr,
                    ..Default::default()
                })
            })
            .collect()
    };
    let rules = mk(0, &name);
    let mut zcount = 0u64;
    let _ = cb::load_rules_of_resource(&name, rules);
    LOG.lock().unwrap().clear();
    let bs = cb::get_breakers_of_resource(&name);
    out.push(bs.len() as i128);
    out.extend(bs.iter().map(|b| num_id(&b.bound_rule().id)));
    let custom = Arc::new(chain::standard_plus(vec![Arc::new(OracleSlot {})], vec![]));
    let mut entries: HashMap<u64, EntryStrongPtr> = HashMap::new();
    while !t.done() {
        match t.s().as_str() {
            "B" => {
                let (id, other) = (t.u64(), t.u64());
                ORACLE.store(other == 1, Ordering::SeqCst);
                let b = EntryBuilder::new(name.clone()).with_slot_chain(custom.clone());
                match guarded(|| b.build()) {
                    None => {
                        out.push(-1);
                        break;
                    }
                    Some(Ok(e)) => {
                        out.push(0);
                        entries.insert(id, e);
                    }
                    Some(Err(e)) => {
                        out.extend([1, block_code_of_msg(&e.to_string())]);
                    }
                }
                ORACLE.store(false, Ordering::SeqCst);
                flush(&mut out, &name, base);
            }
            "X" => {
                let (id, err) = (t.u64(), t.u64());
                match entries.remove(&id) {
                    None => out.push(20),
                    Some(e) => {
                        if err == 1 {
                            e.set_err(sentinel_core::Error::msg("biz error"));
                        }
                        match guarded(|| e.exit()) {
                            Some(_) => out.push(2),
                            None => {
                                out.push(-1);
                                break;
                            }
                        }
                    }
                }
                flush(&mut out, &name, base);
            }
            "A" => {
                let dt = t.u64();
                clock::advance_ns(dt as i128 * 1_000_000);
                out.push(3);
                flush(&mut out, &name, base);
            }
            "Z" => {
                let mode = t.u64();
                zcount += 1;
                let r = guarded(|| {
                    let mut rs = mk(zcount, &name);
                    rs.reverse();
                    if mode == 0 {
                        let _ = cb::load_rules_of_resource(&name, rs);
                    } else {
                        if mode == 2 && zcount % 2 == 1 {
                            let other = format!("bz{}", tag);
                            rs.extend(mk(zcount, &other));
                        }
                        cb::load_rules(rs);
                    }
                });
                LOG.lock().unwrap().clear();
                if r.is_none() {
                    out.push(-1);
                    break;
                }
            }
            x => panic!("bad op {}", x),
        }
    }
    for (_, e) in entries.drain() {
        let _ = guarded(|| e.exit());
    }
    let _ = guarded(|| cb::clear_rules_of_resource(&name));
    let other = format!("bz{}", tag);
    let _ = guarded(|| cb::clear_rules_of_resource(&other));
    LOG.lock().unwrap().clear();
    out
}
