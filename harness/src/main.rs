//! Correspondence harness: runs the real sentinel-core on cases produced by the driver
//! and prints one line of integers per case (the observations).
//!
//! usage: vharness <property> <infile> <outfile>
use std::io::{BufRead, BufWriter, Write};

mod c02;
mod c13;
mod world;
mod hot;
mod thr;
mod cb;
mod mgr;
mod tow;
mod cfg;
mod ml;
mod rules;
mod rj;
mod c12;
mod req;
mod sys;
pub mod sched;
mod cbc;
mod conc;
mod ft;
mod mlog;
mod wu;
mod mgrc;
pub mod util;

fn main() {
    let args: Vec<String> = std::env::args().collect();
    if args.len() < 4 {
        eprintln!("usage: vharness <property> <infile> <outfile>");
        std::process::exit(2);
    }
    // keep panics quiet: they are observations, not failures of the harness
    if std::env::var("VH_SHOW_PANICS").is_err() { std::panic::set_hook(Box::new(|_| {})); }
    let f: fn(&mut util::Toks) -> Vec<i128> = match args[1].as_str() {
        "c02" => c02::run_case,
        "c13" => c13::run_case,
        "world" => world::run_case,
        "hot" => hot::run_case,
        "thr" => thr::run_case,
        "cb" => cb::run_case,
        "mgr" => mgr::run_case,
        "tow" => tow::run_case,
        "cfg" => cfg::run_case,
        "ml" => ml::run_case,
        "rj" => rj::run_case,
        "c12" => c12::run_case,
        "req" => req::run_case,
        "sys" => sys::run_case,
        "conc" => conc::run_case,
        "cbc" => cbc::run_case,
        "ft" => ft::run_case,
        "mlog" => mlog::run_case,
        "wu" => wu::run_case,
        "mgrc" => mgrc::run_case,
        p => {
            eprintln!("unknown property {}", p);
            std::process::exit(2);
        }
    };
    let inp = std::io::BufReader::new(std::fs::File::open(&args[2]).expect("open infile"));
    let mut out = BufWriter::new(std::fs::File::create(&args[3]).expect("create outfile"));
    for line in inp.lines() {
        let line = line.unwrap();
        if line.trim().is_empty() {
            continue;
        }
        let mut t = util::Toks::new(&line);
        let obs = f(&mut t);
        let strs: Vec<String> = obs.iter().map(|x| x.to_string()).collect();
        writeln!(out, "{}", strs.join(" ")).unwrap();
    }
    out.flush().unwrap();
}
