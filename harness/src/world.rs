//! World cases: entries through the real EntryBuilder on the virtual clock, with flow
//! (reject) and isolation rules loaded per resource; serves C01, C04, C05.
//!
//! case: tag base_ms nres  { nflow (id thr_bits interval)*  niso (id thr)* }*nres   ops...
//! ops : B id res batch inbound extra | X id | A dt | R res | RI | Z mode
//!       Z mode: reload rules that are Eq-equal to the loaded ones under fresh ids (0: per resource, 1: load-all,
//!       2: load-all plus an unrelated resource); prints nothing
//! out : per resource: nf ids.. ni ids..   (rules in the order the managers hold them)
//!       B -> 0 | 1 btype rule snapshot ; X -> 2 | 20 (unknown id) ; A -> 3 ;
//!       R -> 4 conc pass block complete rt ; RI -> 5 conc pass block complete rt ; panic -> -1
use crate::util::*;
use sentinel_core::base::{
    BaseSlot, ConcurrencyStat, EntryContext, EntryStrongPtr, ReadStat, RuleCheckSlot, TokenResult,
    TrafficType, BlockType,
};
use sentinel_core::verif::{chain, clock};
use sentinel_core::{flow, isolation, stat, EntryBuilder};
use std::collections::HashMap;
use std::sync::atomic::{AtomicI64, Ordering};
use std::sync::Arc;

static ORACLE: AtomicI64 = AtomicI64::new(-1);

struct OracleSlot {}
impl BaseSlot for OracleSlot {
    fn order(&self) -> u32 {
        9000
    }
}
impl RuleCheckSlot for OracleSlot {
    fn check(&self, ctx: &mut EntryContext) -> TokenResult {
        let k = ORACLE.load(Ordering::SeqCst);
        if k >= 0 {
            TokenResult::new_blocked(BlockType::Other(k as u8))
        } else {
            ctx.result().clone()
        }
    }
}

/// parse  `id: "F12"`  -> 12 ; absent -> 0
pub fn rule_id_of_msg(msg: &str) -> i128 {
    let key = "id: \"";
    match msg.find(key) {
        None => 0,
        Some(p) => {
            let rest = &msg[p + key.len()..];
            let end = rest.find('"').unwrap_or(rest.len());
            let digits: String = rest[..end].chars().filter(|c| c.is_ascii_digit()).collect();
            digits.parse().unwrap_or(-5)
        }
    }
}

/// parse `snapshot_value: Some(3.0)` -> 3 ; absent -> 0
pub fn snapshot_of_msg(msg: &str) -> i128 {
    let key = "snapshot_value: Some(";
    match msg.find(key) {
        None => 0,
        Some(p) => {
            let rest = &msg[p + key.len()..];
            let end = rest.find(')').unwrap_or(rest.len());
            rest[..end].parse::<f64>().map(|x| x as i128).unwrap_or(-6)
        }
    }
}

pub fn num_id(id: &str) -> i128 {
    let digits: String = id.chars().filter(|c| c.is_ascii_digit()).collect();
    digits.parse().unwrap_or(-5)
}

fn read_node(n: &dyn ReadStatConc) -> Vec<i128> {
    let mut v = vec![n.conc() as i128];
    for e in [0u64, 1, 2, 4] {
        v.push(n.sum_ev(event(e)) as i128);
    }
    v
}

trait ReadStatConc {
    fn conc(&self) -> u32;
    fn sum_ev(&self, e: sentinel_core::base::MetricEvent) -> u64;
}
impl<T: ReadStat + ConcurrencyStat> ReadStatConc for T {
    fn conc(&self) -> u32 {
        self.current_concurrency()
    }
    fn sum_ev(&self, e: sentinel_core::base::MetricEvent) -> u64 {
        self.sum(e)
    }
}

pub fn run_case(t: &mut Toks) -> Vec<i128> {
    let mut out = Vec::new();
    let tag = t.s();
    let base = t.u64();
    clock::set_ms(base);
    let nres = t.usize();
    let names: Vec<String> = (0..nres).map(|k| format!("w{}_{}", tag, k)).collect();
    let mut fspecs: Vec<Vec<(u64, f64, u32)>> = Vec::new();
    let mut ispecs: Vec<Vec<(u64, u32)>> = Vec::new();
    let mut zcount = 0u64;
    for name in &names {
        fspecs.push(Vec::new());
        ispecs.push(Vec::new());
        let nf = t.usize();
        let mut frules = Vec::new();
        for _ in 0..nf {
            let (id, thr, iv) = (t.u64(), t.f64bits(), t.u32());
            fspecs.last_mut().unwrap().push((id, thr, iv));
            frules.push(Arc::new(flow::Rule {
                id: format!("F{}", id),
                resource: name.clone(),
                threshold: thr,
                stat_interval_ms: iv,
                calculate_strategy: flow::CalculateStrategy::Direct,
                control_strategy: flow::ControlStrategy::Reject,
                ..Default::default()
            }));
        }
        if nf > 0 {
            let _ = flow::load_rules_of_resource(name, frules);
        }
        let ni = t.usize();
        let mut irules = Vec::new();
        for _ in 0..ni {
            let (id, thr) = (t.u64(), t.u32());
            ispecs.last_mut().unwrap().push((id, thr));
            irules.push(Arc::new(isolation::Rule {
                id: format!("I{}", id),
                resource: name.clone(),
                threshold: thr,
                ..Default::default()
            }));
        }
        if ni > 0 {
            let _ = isolation::load_rules_of_resource(name, irules);
        }
        let fr = flow::get_rules_of_resource(name);
        out.push(fr.len() as i128);
        out.extend(fr.iter().map(|r| num_id(&r.id)));
        let ir = isolation::get_rules_of_resource(name);
        out.push(ir.len() as i128);
        out.extend(ir.iter().map(|r| num_id(&r.id)));
    }
    let custom = Arc::new(chain::standard_plus(vec![Arc::new(OracleSlot {})], vec![]));
    let mut entries: HashMap<u64, EntryStrongPtr> = HashMap::new();
    let mut panicked = false;
    while !t.done() && !panicked {
        match t.s().as_str() {
            "B" => {
                let (id, res, batch, inbound, extra) = (t.u64(), t.usize(), t.u32(), t.u64(), t.i64());
                ORACLE.store(extra, Ordering::SeqCst);
                let mut b = EntryBuilder::new(names[res].clone())
                    .with_batch_count(batch)
                    .with_traffic_type(if inbound == 1 { TrafficType::Inbound } else { TrafficType::Outbound });
                if extra >= 0 {
                    b = b.with_slot_chain(custom.clone());
                }
                match guarded(|| b.build()) {
                    None => {
                        out.push(-1);
                        panicked = true;
                    }
                    Some(Ok(e)) => {
                        out.push(0);
                        entries.insert(id, e);
                    }
                    Some(Err(e)) => {
                        let m = e.to_string();
                        out.extend([1, block_code_of_msg(&m), rule_id_of_msg(&m), snapshot_of_msg(&m)]);
                    }
                }
                ORACLE.store(-1, Ordering::SeqCst);
            }
            "X" => {
                let id = t.u64();
                match entries.remove(&id) {
                    None => out.push(20),
                    Some(e) => match guarded(|| {
                        // every other entry ends with a business error recorded on it: the accounting is the same
                        if id % 2 == 1 {
                            e.set_err(sentinel_core::Error::msg("biz error"));
                        }
                        e.exit()
                    }) {
                        Some(_) => out.push(2),
                        None => {
                            out.push(-1);
                            panicked = true;
                        }
                    },
                }
            }
            "A" => {
                let dt = t.u64();
                clock::advance_ns(dt as i128 * 1_000_000);
                out.push(3);
            }
            "R" => {
                let res = t.usize();
                out.push(4);
                match guarded(|| match stat::get_resource_node(&names[res]) {
                    Some(n) => read_node(&*n),
                    None => vec![0; 5],
                }) {
                    Some(v) => out.extend(v),
                    None => {
                        out.push(-1);
                        panicked = true;
                    }
                }
            }
            "RI" => {
                out.push(5);
                match guarded(|| read_node(&*stat::inbound_node())) {
                    Some(v) => out.extend(v),
                    None => {
                        out.push(-1);
                        panicked = true;
                    }
                }
            }
            "Z" => {
                let mode = t.u64();
                zcount += 1;
                let mk_f = |k: usize, z: u64| -> Vec<Arc<flow::Rule>> {
                    fspecs[k].iter().rev().map(|(id, thr, iv)| Arc::new(flow::Rule {
                        id: format!("F{}", id + 100000 * z), resource: names[k].clone(), threshold: *thr,
                        stat_interval_ms: *iv, calculate_strategy: flow::CalculateStrategy::Direct,
                        control_strategy: flow::ControlStrategy::Reject, ..Default::default() })).collect()
                };
                let mk_i = |k: usize, z: u64| -> Vec<Arc<isolation::Rule>> {
                    ispecs[k].iter().rev().map(|(id, thr)| Arc::new(isolation::Rule {
                        id: format!("I{}", id + 100000 * z), resource: names[k].clone(), threshold: *thr,
                        ..Default::default() })).collect()
                };
                let r = guarded(|| {
                    if mode == 0 {
                        for k in 0..names.len() {
                            if !fspecs[k].is_empty() { let _ = flow::load_rules_of_resource(&names[k], mk_f(k, zcount)); }
                            if !ispecs[k].is_empty() { let _ = isolation::load_rules_of_resource(&names[k], mk_i(k, zcount)); }
                        }
                    } else {
                        let mut fa: Vec<Arc<flow::Rule>> = (0..names.len()).flat_map(|k| mk_f(k, zcount)).collect();
                        let mut ia: Vec<Arc<isolation::Rule>> = (0..names.len()).flat_map(|k| mk_i(k, zcount)).collect();
                        if mode == 2 && zcount % 2 == 1 {
                            fa.push(Arc::new(flow::Rule { id: "FZ".into(), resource: format!("zz{}", tag), threshold: zcount as f64, ..Default::default() }));
                            ia.push(Arc::new(isolation::Rule { id: "IZ".into(), resource: format!("zz{}", tag), threshold: zcount as u32, ..Default::default() }));
                        }
                        flow::load_rules(fa);
                        isolation::load_rules(ia);
                    }
                });
                if r.is_none() { out.push(-1); panicked = true; }
            }
            x => panic!("bad op {}", x),
        }
    }
    // clean up: release what is still open, drop this case's rules
    for (_, e) in entries.drain() {
        let _ = guarded(|| e.exit());
    }
    for name in &names {
        let _ = guarded(|| flow::clear_rules_of_resource(name));
        let _ = guarded(|| isolation::clear_rules_of_resource(name));
    }
    let zz = format!("zz{}", tag);
    let _ = guarded(|| flow::clear_rules_of_resource(&zz));
    let _ = guarded(|| isolation::clear_rules_of_resource(&zz));
    out
}
