//! C13: custom slot chains with recording slots, driven through EntryBuilder.
//! case: np (id ord)*  nc (id ord kind val)*  ns (id ord)*      kind: 0 pass, 1 blocked(val), 2 wait(val)
//! out : result (0 = Ok, 1+code = Err), nb, then nb events of build, then events of exit
//!       event = kind id ord k   (kind 0 prep, 1 check, 2 pass, 3 blocked, 4 done)
use crate::util::*;
use sentinel_core::base::{
    BaseSlot, BlockError, BlockType, EntryContext, RuleCheckSlot, SlotChain, StatPrepareSlot,
    StatSlot, TokenResult,
};
use sentinel_core::EntryBuilder;
use std::sync::{Arc, Mutex};

type Log = Arc<Mutex<Vec<[i128; 4]>>>;

struct Prep {
    id: i128,
    ord: u32,
    log: Log,
}
impl BaseSlot for Prep {
    fn order(&self) -> u32 {
        self.ord
    }
}
impl StatPrepareSlot for Prep {
    fn prepare(&self, _ctx: &mut EntryContext) {
        self.log.lock().unwrap().push([0, self.id, self.ord as i128, 0]);
    }
}

struct Check {
    id: i128,
    ord: u32,
    kind: u64,
    val: u64,
    log: Log,
}
impl BaseSlot for Check {
    fn order(&self) -> u32 {
        self.ord
    }
}
impl RuleCheckSlot for Check {
    fn check(&self, _ctx: &mut EntryContext) -> TokenResult {
        self.log.lock().unwrap().push([1, self.id, self.ord as i128, 0]);
        match self.kind {
            0 => TokenResult::new_pass(),
            1 => TokenResult::new_blocked(BlockType::Other(self.val as u8)),
            _ => TokenResult::new_should_wait(self.val),
        }
    }
}

struct Stat {
    id: i128,
    ord: u32,
    log: Log,
}
impl BaseSlot for Stat {
    fn order(&self) -> u32 {
        self.ord
    }
}
impl StatSlot for Stat {
    fn on_entry_pass(&self, _ctx: &EntryContext) {
        self.log.lock().unwrap().push([2, self.id, self.ord as i128, 0]);
    }
    fn on_entry_blocked(&self, _ctx: &EntryContext, e: BlockError) {
        let k = match e.block_type() {
            BlockType::Other(k) => k as i128,
            t => 1000 + block_code(t),
        };
        self.log.lock().unwrap().push([3, self.id, self.ord as i128, k]);
    }
    fn on_completed(&self, _ctx: &mut EntryContext) {
        self.log.lock().unwrap().push([4, self.id, self.ord as i128, 0]);
    }
}

pub fn run_case(t: &mut Toks) -> Vec<i128> {
    let log: Log = Arc::new(Mutex::new(Vec::new()));
    let mut sc = SlotChain::new();
    let np = t.usize();
    for _ in 0..np {
        let (id, ord) = (t.u64() as i128, t.u32());
        sc.add_stat_prepare_slot(Arc::new(Prep { id, ord, log: log.clone() }));
    }
    let nc = t.usize();
    for _ in 0..nc {
        let (id, ord, kind, val) = (t.u64() as i128, t.u32(), t.u64(), t.u64());
        sc.add_rule_check_slot(Arc::new(Check { id, ord, kind, val, log: log.clone() }));
    }
    let ns = t.usize();
    for _ in 0..ns {
        let (id, ord) = (t.u64() as i128, t.u32());
        sc.add_stat_slot(Arc::new(Stat { id, ord, log: log.clone() }));
    }
    let sc = Arc::new(sc);
    let mut out = Vec::new();
    let r = guarded(|| {
        EntryBuilder::new("c13-resource".into())
            .with_slot_chain(sc.clone())
            .build()
    });
    let build_events: Vec<[i128; 4]> = log.lock().unwrap().drain(..).collect();
    match r {
        None => {
            out.push(-1);
            return out;
        }
        Some(Err(e)) => {
            let code = block_code_of_msg(&e.to_string());
            out.push(1 + if code >= 100 { code - 100 } else { 1000 + code });
        }
        Some(Ok(entry)) => {
            out.push(0);
            if guarded(|| entry.exit()).is_none() {
                out.push(-1);
                return out;
            }
        }
    }
    out.push(build_events.len() as i128);
    for e in build_events {
        out.extend(e);
    }
    for e in log.lock().unwrap().drain(..) {
        out.extend(e);
    }
    out
}
