//! Tower middleware cases (C20): the real SentinelService over a scripted inner service,
//! polled by hand, under an isolation rule so that a leaked admission shows up.
//! case: tag threshold role(0 server,1 client) fallback(0 none, 1 answers Ok, 2 answers Err)  { kind drop }*
//!       kind: 0 ready Ok, 1 ready Err, 2 pending-then-Ok, 3 pending-then-Err ; drop=1: future dropped after one poll
//! out : per request: inner_calls_delta  result(0 Ok inner, 1 Ok fallback, 2 Err, 3 dropped)  inflight_after inner_polls
use crate::util::*;
use sentinel_core::base::ConcurrencyStat;
use sentinel_core::{isolation, stat};
use sentinel_tower::{SentinelService, ServiceRole};
use std::future::Future;
use std::pin::Pin;
use std::sync::atomic::{AtomicU64, Ordering};
use std::sync::Arc;
use std::task::{Context, Poll, Wake, Waker};
use tower::Service;

#[derive(Clone)]
pub struct Req {
    res: String,
    kind: u64,
}

#[derive(Debug, PartialEq)]
pub enum Resp {
    Inner,
    Fallback,
}

#[derive(Clone)]
struct Inner {
    calls: Arc<AtomicU64>,
    polls: Arc<AtomicU64>,
}

struct InnerFut {
    kind: u64,
    pending_left: u64,
    polls: Arc<AtomicU64>,
}

impl Future for InnerFut {
    type Output = Result<Resp, std::io::Error>;
    fn poll(mut self: Pin<&mut Self>, _cx: &mut Context<'_>) -> Poll<Self::Output> {
        self.polls.fetch_add(1, Ordering::SeqCst);
        if self.pending_left > 0 {
            self.pending_left -= 1;
            return Poll::Pending;
        }
        if self.kind % 2 == 0 {
            Poll::Ready(Ok(Resp::Inner))
        } else {
            Poll::Ready(Err(std::io::Error::new(std::io::ErrorKind::Other, "inner failed")))
        }
    }
}

impl Service<Req> for Inner {
    type Response = Resp;
    type Error = std::io::Error;
    type Future = InnerFut;
    fn poll_ready(&mut self, _cx: &mut Context<'_>) -> Poll<Result<(), Self::Error>> {
        Poll::Ready(Ok(()))
    }
    fn call(&mut self, req: Req) -> Self::Future {
        self.calls.fetch_add(1, Ordering::SeqCst);
        InnerFut { kind: req.kind, pending_left: if req.kind >= 2 { 2 } else { 0 }, polls: self.polls.clone() }
    }
}

struct NoopWake;
impl Wake for NoopWake {
    fn wake(self: Arc<Self>) {}
}

fn extractor(r: &Req) -> String {
    r.res.clone()
}
fn fallback(_r: &Req, _e: sentinel_core::Error) -> Result<Resp, sentinel_tower::BoxError> {
    Ok(Resp::Fallback)
}
fn fallback_err(_r: &Req, e: sentinel_core::Error) -> Result<Resp, sentinel_tower::BoxError> {
    Err(e.into())
}

pub fn run_case(t: &mut Toks) -> Vec<i128> {
    let mut out = Vec::new();
    let tag = t.s();
    let thr = t.u32();
    let role = t.u64();
    let fb = t.u64();
    let name = format!("tw{}", tag);
    let _ = isolation::load_rules_of_resource(
        &name,
        vec![Arc::new(isolation::Rule { id: "TW".into(), resource: name.clone(), threshold: thr, ..Default::default() })],
    );
    let calls = Arc::new(AtomicU64::new(0));
    let polls = Arc::new(AtomicU64::new(0));
    let inner = Inner { calls: calls.clone(), polls: polls.clone() };
    let mut svc: SentinelService<Inner, Req> =
        SentinelService::new(inner, if role == 0 { ServiceRole::Server } else { ServiceRole::Client }).with_extractor(extractor);
    if fb == 1 {
        svc = svc.with_fallback(fallback);
    } else if fb == 2 {
        svc = svc.with_fallback(fallback_err);
    }
    let waker = Waker::from(Arc::new(NoopWake));
    let mut cx = Context::from_waker(&waker);
    // the same service instance first serves a request for another resource (which has no rule): what follows
    // must still be checked and accounted on its own resource
    {
        let other = format!("tw{}_other", tag);
        let _ = guarded(|| {
            let mut fut = svc.call(Req { res: other, kind: 0 });
            for _ in 0..10 {
                if let Poll::Ready(_) = fut.as_mut().poll(&mut cx) {
                    break;
                }
            }
        });
        calls.store(0, Ordering::SeqCst);
        polls.store(0, Ordering::SeqCst);
    }
    while !t.done() {
        let (kind, drop_it) = (t.u64(), t.u64());
        let c0 = calls.load(Ordering::SeqCst);
        let p0 = polls.load(Ordering::SeqCst);
        let r = guarded(|| {
            let mut fut = svc.call(Req { res: name.clone(), kind });
            let mut res = 3i128;
            for i in 0..10 {
                match fut.as_mut().poll(&mut cx) {
                    Poll::Ready(Ok(Resp::Inner)) => {
                        res = 0;
                        break;
                    }
                    Poll::Ready(Ok(Resp::Fallback)) => {
                        res = 1;
                        break;
                    }
                    Poll::Ready(Err(_)) => {
                        res = 2;
                        break;
                    }
                    Poll::Pending => {
                        if drop_it == 1 && i == 0 {
                            break;
                        }
                    }
                }
            }
            drop(fut);
            res
        });
        match r {
            None => {
                out.push(-1);
                break;
            }
            Some(res) => {
                let infl = stat::get_resource_node(&name).map(|n| n.current_concurrency()).unwrap_or(0);
                out.extend([
                    (calls.load(Ordering::SeqCst) - c0) as i128,
                    res,
                    infl as i128,
                    (polls.load(Ordering::SeqCst) - p0) as i128,
                ]);
            }
        }
    }
    let _ = guarded(|| isolation::clear_rules_of_resource(&name));
    out
}
