//! Rule-manager cases (C10, C11 identity part, C12 manager part).
//! case: tag family npool { id res key }*  nres  ops...      family: 0 flow, 1 hotspot, 2 breaker, 3 isolation
//!       a rule with key k is valid iff k % 5 != 0 and has statistic class k % 2; family 4 = system (ops L P C G only;
//!       resources 1..3 = metric types)
//! ops : L n ix* | R res n ix* | P ix | C | K res | G | Q res | E res | T res
//!       T res: identity of the controllers / breakers of the resource: (rule id, object token, statistic token)*
//! out : per op a length-prefixed list: return code (1 true, 0 false, 2 Err, 9 unit, -1 panic) or rule ids
use crate::util::*;
use crate::world::num_id;
use sentinel_core::{circuitbreaker as cb, flow, hotspot, isolation, system};
use std::sync::Arc;

#[derive(Clone)]
struct PR {
    id: u64,
    res: u64,
    key: u64,
}

fn name(tag: &str, res: u64) -> String {
    if res == 0 {
        String::new()
    } else {
        format!("m{}_{}", tag, res)
    }
}

fn flow_rule(tag: &str, p: &PR) -> Arc<flow::Rule> {
    let valid = p.key % 5 != 0;
    Arc::new(flow::Rule {
        id: format!("M{}", p.id),
        resource: name(tag, p.res),
        threshold: if valid { p.key as f64 } else { -(p.key as f64) - 1.0 },
        stat_interval_ms: 1000 * ((p.key % 2) as u32 + 2),
        ..Default::default()
    })
}
fn hot_rule(tag: &str, p: &PR) -> Arc<hotspot::Rule> {
    let valid = p.key % 5 != 0;
    Arc::new(hotspot::Rule {
        id: format!("M{}", p.id),
        resource: name(tag, p.res),
        metric_type: hotspot::MetricType::QPS,
        threshold: p.key,
        duration_in_sec: if valid { p.key % 2 + 1 } else { 0 },
        ..Default::default()
    })
}
fn cb_rule(tag: &str, p: &PR) -> Arc<cb::Rule> {
    let valid = p.key % 5 != 0;
    Arc::new(cb::Rule {
        id: format!("M{}", p.id),
        resource: name(tag, p.res),
        strategy: cb::BreakerStrategy::ErrorCount,
        retry_timeout_ms: if valid { 1000 } else { 0 },
        min_request_amount: p.key,
        stat_interval_ms: 1000 * ((p.key % 2) as u32 + 1),
        threshold: 1.0,
        ..Default::default()
    })
}
fn iso_rule(tag: &str, p: &PR) -> Arc<isolation::Rule> {
    let valid = p.key % 5 != 0;
    Arc::new(isolation::Rule {
        id: format!("M{}", p.id),
        resource: name(tag, p.res),
        threshold: if valid { p.key as u32 } else { 0 },
        ..Default::default()
    })
}

/// family 4: resources 1..3 are the metric types avg rt / concurrency / inbound qps
fn sys_rule(_tag: &str, p: &PR) -> Arc<system::Rule> {
    let valid = p.key % 5 != 0;
    Arc::new(system::Rule {
        id: format!("M{}", p.id),
        metric_type: match p.res {
            1 => system::MetricType::AvgRT,
            2 => system::MetricType::Concurrency,
            _ => system::MetricType::InboundQPS,
        },
        threshold: if valid { 100000.0 + p.key as f64 } else { -1.0 },
        ..Default::default()
    })
}

fn rb(b: bool) -> i128 {
    b as i128
}
fn rr(r: sentinel_core::Result<bool>) -> i128 {
    match r {
        Ok(b) => b as i128,
        Err(_) => 2,
    }
}

pub fn run_case(t: &mut Toks) -> Vec<i128> {
    let mut out = Vec::new();
    let tag = t.s();
    let fam = t.u64();
    let np = t.usize();
    let pool: Vec<PR> = (0..np).map(|_| PR { id: t.u64(), res: t.u64(), key: t.u64() }).collect();
    let nres = t.u64();
    let pick = |t: &mut Toks| -> Vec<PR> {
        let n = t.usize();
        (0..n).map(|_| pool[t.usize()].clone()).collect()
    };
    let mut tokens: std::collections::HashMap<usize, i128> = std::collections::HashMap::new();
    let mut tok = |p: usize| -> i128 {
        let n = tokens.len() as i128 + 1;
        *tokens.entry(p).or_insert(n)
    };
    let mut emit = |out: &mut Vec<i128>, v: Vec<i128>| {
        out.push(v.len() as i128);
        out.extend(v);
    };
    while !t.done() {
        let op = t.s();
        let r: Option<Vec<i128>> = match op.as_str() {
            "L" => {
                let ps = pick(t);
                guarded(|| match fam {
                    0 => vec![rb(flow::load_rules(ps.iter().map(|p| flow_rule(&tag, p)).collect()))],
                    1 => vec![rb(hotspot::load_rules(ps.iter().map(|p| hot_rule(&tag, p)).collect()))],
                    2 => vec![rb(cb::load_rules(ps.iter().map(|p| cb_rule(&tag, p)).collect()))],
                    3 => {
                        isolation::load_rules(ps.iter().map(|p| iso_rule(&tag, p)).collect());
                        vec![9]
                    }
                    _ => {
                        system::load_rules(ps.iter().map(|p| sys_rule(&tag, p)).collect());
                        vec![9]
                    }
                })
            }
            "R" => {
                let res = t.u64();
                let ps = pick(t);
                let nm = name(&tag, res);
                guarded(|| match fam {
                    0 => vec![rr(flow::load_rules_of_resource(&nm, ps.iter().map(|p| flow_rule(&tag, p)).collect()))],
                    1 => vec![rr(hotspot::load_rules_of_resource(&nm, ps.iter().map(|p| hot_rule(&tag, p)).collect()))],
                    2 => vec![rr(cb::load_rules_of_resource(&nm, ps.iter().map(|p| cb_rule(&tag, p)).collect()))],
                    _ => vec![rr(isolation::load_rules_of_resource(&nm, ps.iter().map(|p| iso_rule(&tag, p)).collect()))],
                })
            }
            "P" => {
                let p = pool[t.usize()].clone();
                guarded(|| match fam {
                    0 => vec![rb(flow::append_rule(flow_rule(&tag, &p)))],
                    1 => vec![rb(hotspot::append_rule(hot_rule(&tag, &p)))],
                    2 => vec![rb(cb::append_rule(cb_rule(&tag, &p)))],
                    3 => vec![rb(isolation::append_rule(iso_rule(&tag, &p)))],
                    _ => vec![rb(system::append_rule(sys_rule(&tag, &p)))],
                })
            }
            "C" => guarded(|| {
                match fam {
                    0 => flow::clear_rules(),
                    1 => hotspot::clear_rules(),
                    2 => cb::clear_rules(),
                    3 => isolation::clear_rules(),
                    _ => system::clear_rules(),
                };
                vec![9]
            }),
            "K" => {
                let nm = name(&tag, t.u64());
                guarded(|| {
                    match fam {
                        0 => flow::clear_rules_of_resource(&nm),
                        1 => hotspot::clear_rules_of_resource(&nm),
                        2 => cb::clear_rules_of_resource(&nm),
                        _ => isolation::clear_rules_of_resource(&nm),
                    };
                    vec![9]
                })
            }
            "G" => guarded(|| match fam {
                0 => flow::get_rules().iter().map(|r| num_id(&r.id)).collect(),
                1 => hotspot::get_rules().iter().map(|r| num_id(&r.id)).collect(),
                2 => cb::get_rules().iter().map(|r| num_id(&r.id)).collect(),
                3 => isolation::get_rules().iter().map(|r| num_id(&r.id)).collect(),
                _ => system::get_rules().iter().map(|r| num_id(&r.id)).collect(),
            }),
            "Q" => {
                let nm = name(&tag, t.u64());
                guarded(|| match fam {
                    0 => flow::get_rules_of_resource(&nm).iter().map(|r| num_id(&r.id)).collect(),
                    1 => hotspot::get_rules_of_resource(&nm).iter().map(|r| num_id(&r.id)).collect(),
                    2 => cb::get_rules_of_resource(&nm).iter().map(|r| num_id(&r.id)).collect(),
                    _ => isolation::get_rules_of_resource(&nm).iter().map(|r| num_id(&r.id)).collect(),
                })
            }
            "E" => {
                let nm = name(&tag, t.u64());
                guarded(|| match fam {
                    0 => flow::get_traffic_controller_list_for(&nm).iter().map(|c| num_id(&c.rule().id)).collect(),
                    1 => hotspot::get_traffic_controller_list_for(&nm).iter().map(|c| num_id(&c.rule().id)).collect(),
                    2 => cb::get_breakers_of_resource(&nm).iter().map(|b| num_id(&b.bound_rule().id)).collect(),
                    _ => isolation::get_rules_of_resource(&nm).iter().map(|r| num_id(&r.id)).collect(),
                })
            }
            "T" => {
                let nm = name(&tag, t.u64());
                let ptrs: Option<Vec<(i128, usize, usize)>> = guarded(|| match fam {
                    0 => flow::get_traffic_controller_list_for(&nm)
                        .iter()
                        .map(|c| (num_id(&c.rule().id), Arc::as_ptr(c) as usize, Arc::as_ptr(c.stat()) as usize))
                        .collect(),
                    1 => hotspot::get_traffic_controller_list_for(&nm)
                        .iter()
                        .map(|c| (num_id(&c.rule().id), Arc::as_ptr(c) as usize, Arc::as_ptr(c.metric()) as usize))
                        .collect(),
                    2 => cb::get_breakers_of_resource(&nm)
                        .iter()
                        .map(|b| {
                            (num_id(&b.bound_rule().id), Arc::as_ptr(b) as *const u8 as usize, Arc::as_ptr(b.stat()) as usize)
                        })
                        .collect(),
                    _ => Vec::new(),
                });
                ptrs.map(|v| {
                    let mut o = Vec::new();
                    for (id, a, b) in v {
                        o.extend([id, tok(a), tok(b)]);
                    }
                    o
                })
            }
            x => panic!("bad op {}", x),
        };
        match r {
            Some(v) => emit(&mut out, v),
            None => {
                emit(&mut out, vec![-1]);
                break;
            }
        }
    }
    let _ = nres;
    let _ = guarded(|| match fam {
        0 => flow::clear_rules(),
        1 => hotspot::clear_rules(),
        2 => cb::clear_rules(),
        3 => isolation::clear_rules(),
        _ => system::clear_rules(),
    });
    out
}
