use sentinel_core::base::MetricEvent;

pub struct Toks {
    v: Vec<String>,
    i: usize,
}

impl Toks {
    pub fn new(line: &str) -> Self {
        Toks {
            v: line.split_whitespace().map(|s| s.to_string()).collect(),
            i: 0,
        }
    }
    pub fn s(&mut self) -> String {
        let r = self.v[self.i].clone();
        self.i += 1;
        r
    }
    pub fn u64(&mut self) -> u64 {
        self.s().parse().unwrap()
    }
    pub fn u32(&mut self) -> u32 {
        self.s().parse().unwrap()
    }
    pub fn i64(&mut self) -> i64 {
        self.s().parse().unwrap()
    }
    pub fn usize(&mut self) -> usize {
        self.s().parse().unwrap()
    }
    /// f64 given as its bit pattern
    pub fn f64bits(&mut self) -> f64 {
        f64::from_bits(self.u64())
    }
    pub fn done(&self) -> bool {
        self.i >= self.v.len()
    }
}

pub fn event(i: u64) -> MetricEvent {
    match i {
        0 => MetricEvent::Pass,
        1 => MetricEvent::Block,
        2 => MetricEvent::Complete,
        3 => MetricEvent::Error,
        _ => MetricEvent::Rt,
    }
}

pub const EVENTS: [MetricEvent; 5] = [
    MetricEvent::Pass,
    MetricEvent::Block,
    MetricEvent::Complete,
    MetricEvent::Error,
    MetricEvent::Rt,
];

pub fn bits(x: f64) -> i128 {
    x.to_bits() as i128
}

/// run `f`, returning None when it panics
pub fn guarded<T>(f: impl FnOnce() -> T) -> Option<T> {
    std::panic::catch_unwind(std::panic::AssertUnwindSafe(f)).ok()
}
