use sentinel_core::base::MetricEvent;

pub struct Toks {
    v: Vec<String>,
    i: usize,
}

impl Toks {
    pub fn new(line: &str) -> Self {
        Toks {
            v: line.split_whitespace().map(|s| s.to_string()).collect(),
            i: 0,
        }
    }
    pub fn s(&mut self) -> String {
        let r = self.v[self.i].clone();
        self.i += 1;
        r
    }
    pub fn u64(&mut self) -> u64 {
        self.s().parse().unwrap()
    }
    pub fn u32(&mut self) -> u32 {
        self.s().parse().unwrap()
    }
    pub fn i64(&mut self) -> i64 {
        self.s().parse().unwrap()
    }
    pub fn usize(&mut self) -> usize {
        self.s().parse().unwrap()
    }
    /// f64 given as its bit pattern
    pub fn f64bits(&mut self) -> f64 {
        f64::from_bits(self.u64())
    }
    pub fn done(&self) -> bool {
        self.i >= self.v.len()
    }
}

pub fn event(i: u64) -> MetricEvent {
    match i {
        0 => MetricEvent::Pass,
        1 => MetricEvent::Block,
        2 => MetricEvent::Complete,
        3 => MetricEvent::Error,
        _ => MetricEvent::Rt,
    }
}

pub const EVENTS: [MetricEvent; 5] = [
    MetricEvent::Pass,
    MetricEvent::Block,
    MetricEvent::Complete,
    MetricEvent::Error,
    MetricEvent::Rt,
];

pub fn bits(x: f64) -> i128 {
    x.to_bits() as i128
}

/// run `f`, returning None when it panics
pub fn guarded<T>(f: impl FnOnce() -> T) -> Option<T> {
    std::panic::catch_unwind(std::panic::AssertUnwindSafe(f)).ok()
}

/// numeric code of the block type named in an `Err` produced by `EntryBuilder::build`
/// (its message is the Debug rendering of the TokenResult)
pub fn block_code_of_msg(msg: &str) -> i128 {
    let key = "block_type: ";
    match msg.find(key) {
        None => -2,
        Some(p) => {
            let rest = &msg[p + key.len()..];
            let end = rest.find(|c: char| c == ',' || c == ' ').unwrap_or(rest.len());
            block_code_of_name(&rest[..end])
        }
    }
}

pub fn block_code_of_name(name: &str) -> i128 {
    match name {
        "Unknown" => 0,
        "Flow" => 1,
        "Isolation" => 2,
        "CircuitBreaking" => 3,
        "SystemFlow" => 4,
        "HotSpotParamFlow" => 5,
        s if s.starts_with("Other(") => {
            100 + s[6..].trim_end_matches(')').parse::<i128>().unwrap_or(-3)
        }
        _ => -4,
    }
}

pub fn block_code(t: sentinel_core::base::BlockType) -> i128 {
    use sentinel_core::base::BlockType::*;
    match t {
        Unknown => 0,
        Flow => 1,
        Isolation => 2,
        CircuitBreaking => 3,
        SystemFlow => 4,
        HotSpotParamFlow => 5,
        Other(n) => 100 + n as i128,
    }
}
