//! C12 cases, one process per case: a rule of any family is offered through a loading entry point, entries are
//! built and exited on its resource, then every manager is probed on an unrelated resource.
//! case: tag entry(0 load-all, 1 load-for-resource, 2 append) batch argshape(0 none,1 short,2 long,3 keyed) <rule desc>
//! out : valid  load_code(1 true,0 false,2 Err,9 unit,-1 panic)  listed  build_panics  health_failures
use crate::rules::*;
use crate::util::*;
use sentinel_core::base::{SentinelRule, TrafficType};
use sentinel_core::verif::clock;
use sentinel_core::{circuitbreaker as cb, flow, hotspot, isolation, system, EntryBuilder};
use std::collections::HashMap;
use std::sync::Arc;

fn rb(b: bool) -> i128 {
    b as i128
}
fn rr(r: sentinel_core::Result<bool>) -> i128 {
    match r {
        Ok(b) => b as i128,
        Err(_) => 2,
    }
}

pub fn run_case(t: &mut Toks) -> Vec<i128> {
    clock::set_ms(1_700_000_000_000);
    let tag = t.s();
    let entry = t.u64();
    let batch = t.u32();
    let shape = t.u64();
    let id = format!("P{}", tag);
    let rule = parse_rule(t, &tag, &id);
    let (valid, res): (bool, String) = match &rule {
        AnyRule::Flow(r) => (r.is_valid().is_ok(), r.resource.clone()),
        AnyRule::Hot(r) => (r.is_valid().is_ok(), r.resource.clone()),
        AnyRule::Cb(r) => (r.is_valid().is_ok(), r.resource.clone()),
        AnyRule::Iso(r) => (r.is_valid().is_ok(), r.resource.clone()),
        AnyRule::Sys(r) => (r.is_valid().is_ok(), String::from("sysres")),
    };
    // make the referenced resource of an associated flow rule exist in case ref = 1
    let _ = guarded(|| {
        if let Ok(e) = EntryBuilder::new(format!("ref{}", tag)).build() {
            e.exit();
        }
    });
    let load = guarded(|| match (&rule, entry) {
        (AnyRule::Flow(r), 0) => rb(flow::load_rules(vec![r.clone()])),
        (AnyRule::Flow(r), 1) => rr(flow::load_rules_of_resource(&r.resource, vec![r.clone()])),
        (AnyRule::Flow(r), _) => rb(flow::append_rule(r.clone())),
        (AnyRule::Hot(r), 0) => rb(hotspot::load_rules(vec![r.clone()])),
        (AnyRule::Hot(r), 1) => rr(hotspot::load_rules_of_resource(&r.resource, vec![r.clone()])),
        (AnyRule::Hot(r), _) => rb(hotspot::append_rule(r.clone())),
        (AnyRule::Cb(r), 0) => rb(cb::load_rules(vec![r.clone()])),
        (AnyRule::Cb(r), 1) => rr(cb::load_rules_of_resource(&r.resource, vec![r.clone()])),
        (AnyRule::Cb(r), _) => rb(cb::append_rule(r.clone())),
        (AnyRule::Iso(r), 0) => {
            isolation::load_rules(vec![r.clone()]);
            9
        }
        (AnyRule::Iso(r), 1) => rr(isolation::load_rules_of_resource(&r.resource, vec![r.clone()])),
        (AnyRule::Iso(r), _) => rb(isolation::append_rule(r.clone())),
        (AnyRule::Sys(r), 2) => rb(system::append_rule(r.clone())),
        (AnyRule::Sys(r), _) => {
            system::load_rules(vec![r.clone()]);
            9
        }
    })
    .unwrap_or(-1);
    let listed = guarded(|| match &rule {
        AnyRule::Flow(_) => flow::get_rules().iter().any(|r| r.id == id),
        AnyRule::Hot(_) => hotspot::get_rules().iter().any(|r| r.id == id),
        AnyRule::Cb(_) => cb::get_rules().iter().any(|r| r.id == id),
        AnyRule::Iso(_) => isolation::get_rules().iter().any(|r| r.id == id),
        AnyRule::Sys(_) => system::get_rules().iter().any(|r| r.id == id),
    })
    .map(|b| b as i128)
    .unwrap_or(-1);
    // traffic on the rule's resource (and one entry with the empty resource name)
    let mut build_panics = 0;
    let target = if res.is_empty() { String::from("fallback_res") } else { res.clone() };
    for (k, name) in [target.clone(), target.clone(), target.clone(), String::new()].iter().enumerate() {
        let r = guarded(|| {
            let mut b = EntryBuilder::new(name.clone())
                .with_batch_count(if k == 1 { batch } else { 1 })
                .with_traffic_type(if k % 2 == 0 { TrafficType::Inbound } else { TrafficType::Outbound });
            match shape {
                1 => b = b.with_args(Some(vec!["v1".into()])),
                2 => b = b.with_args(Some((0..8).map(|i| format!("v{}", i)).collect())),
                3 => {
                    let mut m = HashMap::new();
                    m.insert("k1".to_string(), "v1".to_string());
                    b = b.with_attachments(Some(m)).with_args(Some(vec![]));
                }
                _ => {}
            }
            clock::advance_ns(7_000_000);
            if let Ok(e) = b.build() {
                clock::advance_ns(3_000_000);
                if k == 2 {
                    e.set_err(sentinel_core::Error::msg("biz"));
                }
                e.exit();
            }
        });
        if r.is_none() {
            build_panics += 1;
        }
    }
    // a hotspot rule is then replaced by the same rule with the other control strategy (the statistics of the
    // first must not be taken over), and the same traffic is sent again
    if let AnyRule::Hot(r) = &rule {
        if !r.resource.is_empty() {
            let mut r2 = (**r).clone();
            r2.id = format!("{}b", r.id);
            r2.control_strategy = match r.control_strategy {
                hotspot::ControlStrategy::Reject => hotspot::ControlStrategy::Throttling,
                _ => hotspot::ControlStrategy::Reject,
            };
            if guarded(|| hotspot::load_rules_of_resource(&r.resource, vec![Arc::new(r2)])).is_none() {
                build_panics += 1;
            }
            for k in 0..3 {
                let name = target.clone();
                let r = guarded(|| {
                    let mut b = EntryBuilder::new(name.clone()).with_batch_count(if k == 1 { batch } else { 1 });
                    match shape {
                        1 => b = b.with_args(Some(vec!["v1".into()])),
                        2 => b = b.with_args(Some((0..8).map(|i| format!("v{}", i)).collect())),
                        3 => {
                            let mut m = HashMap::new();
                            m.insert("k1".to_string(), "v1".to_string());
                            b = b.with_attachments(Some(m)).with_args(Some(vec![]));
                        }
                        _ => {}
                    }
                    clock::advance_ns(7_000_000);
                    if let Ok(e) = b.build() {
                        e.exit();
                    }
                });
                if r.is_none() {
                    build_panics += 1;
                }
            }
        }
    }
    // health: every manager still answers queries and accepts updates on an unrelated resource
    let other = format!("healthy{}", tag);
    let mut health = 0;
    let mut probe = |ok: Option<bool>| {
        if ok != Some(true) {
            health += 1;
        }
    };
    probe(guarded(|| {
        let r = Arc::new(flow::Rule { id: "hf".into(), resource: other.clone(), threshold: 1.0, ..Default::default() });
        let a = flow::append_rule(r.clone());
        let _ = flow::get_rules();
        let b = flow::load_rules_of_resource(&other, vec![]).is_ok();
        a && b
    }));
    probe(guarded(|| {
        let r = Arc::new(hotspot::Rule { id: "hh".into(), resource: other.clone(), threshold: 1, ..Default::default() });
        let a = hotspot::append_rule(r.clone());
        let _ = hotspot::get_rules();
        let b = hotspot::load_rules_of_resource(&other, vec![]).is_ok();
        a && b
    }));
    probe(guarded(|| {
        let r = Arc::new(cb::Rule {
            id: "hc".into(),
            resource: other.clone(),
            strategy: cb::BreakerStrategy::ErrorCount,
            retry_timeout_ms: 1000,
            stat_interval_ms: 1000,
            threshold: 1.0,
            ..Default::default()
        });
        let a = cb::append_rule(r.clone());
        let _ = cb::get_rules();
        let b = cb::load_rules_of_resource(&other, vec![]).is_ok();
        a && b
    }));
    probe(guarded(|| {
        let r = Arc::new(isolation::Rule { id: "hi".into(), resource: other.clone(), threshold: 5, ..Default::default() });
        let a = isolation::append_rule(r.clone());
        let _ = isolation::get_rules();
        let b = isolation::load_rules_of_resource(&other, vec![]).is_ok();
        a && b
    }));
    probe(guarded(|| {
        let _ = system::get_rules();
        system::clear_rules();
        true
    }));
    vec![valid as i128, load, listed, build_panics, health]
}
