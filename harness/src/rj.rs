//! Rule JSON cases (C18, rules half; implementation-level): serialise with serde_json, parse back with the
//! datasource parser's call (serde_json::from_str::<Vec<Rule>>), drop / mistype every field, cut at every byte.
//! case: tag <rule description (see rules.rs)>
//! out : roundtrip_ok  drop_failures  type_failures  truncation_failures  nfields
use crate::rules::*;
use crate::util::*;
use serde_json::Value;

fn check<R>(r: &R) -> Vec<i128>
where
    R: serde::Serialize + serde::de::DeserializeOwned + PartialEq + std::fmt::Debug + Default,
{
    let text = match guarded(|| serde_json::to_string(&vec![r])) {
        Some(Ok(t)) => t,
        _ => return vec![-1, 0, 0, 0, 0],
    };
    // round trip through the datasource parser's call
    let back: Option<Result<Vec<R>, _>> = guarded(|| serde_json::from_str::<Vec<R>>(&text));
    let rt_ok = match &back {
        Some(Ok(v)) => {
            // Eq ignores the id: compare every field through the value tree as well
            v.len() == 1 && &v[0] == r && serde_json::to_value(&v[0]).unwrap() == serde_json::to_value(r).unwrap()
        }
        _ => false,
    };
    let v: Value = serde_json::to_value(r).unwrap();
    let dv: Value = serde_json::to_value(R::default()).unwrap();
    let obj = v.as_object().unwrap();
    let mut drop_fail = 0;
    let mut type_fail = 0;
    for k in obj.keys() {
        // dropped field takes its default, the others are kept
        let mut o2 = obj.clone();
        o2.remove(k);
        match guarded(|| serde_json::from_value::<R>(Value::Object(o2.clone()))) {
            Some(Ok(r2)) => {
                let v2 = serde_json::to_value(&r2).unwrap();
                for (k2, x) in v2.as_object().unwrap() {
                    if k2 == k {
                        if k != "id" && x != &dv[k2] {
                            drop_fail += 1;
                        }
                    } else if x != &obj[k2] {
                        drop_fail += 1;
                    }
                }
            }
            _ => drop_fail += 1,
        }
        // a value of the wrong JSON type is an error, never a panic
        let wrong = if obj[k].is_string() { Value::from(17) } else { Value::from("oops") };
        let mut o3 = obj.clone();
        o3.insert(k.clone(), wrong);
        match guarded(|| serde_json::from_value::<R>(Value::Object(o3))) {
            Some(Err(_)) => {}
            _ => type_fail += 1,
        }
    }
    // truncation at every byte boundary that is a char boundary
    let mut trunc_fail = 0;
    for n in 0..text.len() {
        if !text.is_char_boundary(n) {
            continue;
        }
        match guarded(|| serde_json::from_str::<Vec<R>>(&text[..n])) {
            Some(Err(_)) => {}
            _ => trunc_fail += 1,
        }
    }
    vec![rt_ok as i128, drop_fail, type_fail, trunc_fail, obj.len() as i128]
}

pub fn run_case(t: &mut Toks) -> Vec<i128> {
    let tag = t.s();
    let id = format!("J{}", tag);
    match parse_rule(t, &tag, &id) {
        AnyRule::Flow(r) => check(&*r),
        AnyRule::Hot(r) => check(&*r),
        AnyRule::Cb(r) => check(&*r),
        AnyRule::Iso(r) => check(&*r),
        AnyRule::Sys(r) => check(&*r),
    }
}
