//! Concrete rules of the five families from a numeric description (shared by C12 and C18 cases).
//! flow    : 0 res calc ctrl relation ref thr_bits warm_period cold maxq stat lowmem highmem lowwater highwater
//! hotspot : 1 res metric ctrl idx key thr maxq burst dur capacity nspec (v t)*
//! breaker : 2 res strategy retry minreq interval buckets maxrt thr_bits
//! isolation: 3 res thr
//! system  : 4 metric strategy thr_bits
//! res: 0 empty name, 1 plain name, 2 unicode + separator name ; ref: 0 empty, 1 an existing resource, 2 never seen
use crate::util::Toks;
use sentinel_core::{circuitbreaker as cb, flow, hotspot, isolation, system};
use std::collections::HashMap;
use std::sync::Arc;

#[derive(Clone)]
pub enum AnyRule {
    Flow(Arc<flow::Rule>),
    Hot(Arc<hotspot::Rule>),
    Cb(Arc<cb::Rule>),
    Iso(Arc<isolation::Rule>),
    Sys(Arc<system::Rule>),
}

pub fn res_name(tag: &str, kind: u64) -> String {
    match kind {
        0 => String::new(),
        1 => format!("r{}", tag),
        _ => format!("资源|{}|é", tag),
    }
}

pub fn parse_rule(t: &mut Toks, tag: &str, id: &str) -> AnyRule {
    match t.u64() {
        0 => {
            let res = res_name(tag, t.u64());
            let calc = match t.u64() {
                0 => flow::CalculateStrategy::Direct,
                1 => flow::CalculateStrategy::WarmUp,
                _ => flow::CalculateStrategy::MemoryAdaptive,
            };
            let ctrl = if t.u64() == 0 { flow::ControlStrategy::Reject } else { flow::ControlStrategy::Throttling };
            let rel = if t.u64() == 0 { flow::RelationStrategy::Current } else { flow::RelationStrategy::Associated };
            let refr = match t.u64() {
                0 => String::new(),
                1 => format!("ref{}", tag),
                _ => format!("never_seen_{}", tag),
            };
            AnyRule::Flow(Arc::new(flow::Rule {
                id: id.into(),
                resource: res,
                ref_resource: refr,
                calculate_strategy: calc,
                control_strategy: ctrl,
                relation_strategy: rel,
                threshold: t.f64bits(),
                warm_up_period_sec: t.u32(),
                warm_up_cold_factor: t.u32(),
                max_queueing_time_ms: t.u32(),
                stat_interval_ms: t.u32(),
                low_mem_usage_threshold: t.u64(),
                high_mem_usage_threshold: t.u64(),
                mem_low_water_mark: t.u64(),
                mem_high_water_mark: t.u64(),
            }))
        }
        1 => {
            let res = res_name(tag, t.u64());
            let metric = if t.u64() == 0 { hotspot::MetricType::Concurrency } else { hotspot::MetricType::QPS };
            let ctrl = if t.u64() == 0 { hotspot::ControlStrategy::Reject } else { hotspot::ControlStrategy::Throttling };
            let idx = t.i64() as isize;
            let key = match t.u64() {
                0 => String::new(),
                1 => "k1".to_string(),
                _ => " k1 ".to_string(), // surrounding blanks: the key is trimmed before it is looked up
            };
            let (thr, maxq, burst, dur, cap) = (t.u64(), t.u64(), t.u64(), t.u64(), t.usize());
            let ns = t.usize();
            let mut spec = HashMap::new();
            for _ in 0..ns {
                let (v, th) = (t.u64(), t.u64());
                spec.insert(format!("v{}", v), th);
            }
            AnyRule::Hot(Arc::new(hotspot::Rule {
                id: id.into(),
                resource: res,
                metric_type: metric,
                control_strategy: ctrl,
                param_index: idx,
                param_key: key,
                threshold: thr,
                max_queueing_time_ms: maxq,
                burst_count: burst,
                duration_in_sec: dur,
                params_max_capacity: cap,
                specific_items: spec,
            }))
        }
        2 => {
            let res = res_name(tag, t.u64());
            let strategy = match t.u64() {
                0 => cb::BreakerStrategy::SlowRequestRatio,
                1 => cb::BreakerStrategy::ErrorRatio,
                _ => cb::BreakerStrategy::ErrorCount,
            };
            AnyRule::Cb(Arc::new(cb::Rule {
                id: id.into(),
                resource: res,
                strategy,
                retry_timeout_ms: t.u32(),
                min_request_amount: t.u64(),
                stat_interval_ms: t.u32(),
                stat_sliding_window_bucket_count: t.u32(),
                max_allowed_rt_ms: t.u64(),
                threshold: t.f64bits(),
            }))
        }
        3 => {
            let res = res_name(tag, t.u64());
            AnyRule::Iso(Arc::new(isolation::Rule {
                id: id.into(),
                resource: res,
                threshold: t.u32(),
                ..Default::default()
            }))
        }
        _ => {
            let metric = match t.u64() {
                0 => system::MetricType::Load,
                1 => system::MetricType::AvgRT,
                2 => system::MetricType::Concurrency,
                3 => system::MetricType::InboundQPS,
                _ => system::MetricType::CpuUsage,
            };
            let strategy = if t.u64() == 0 { system::AdaptiveStrategy::NoAdaptive } else { system::AdaptiveStrategy::BBR };
            AnyRule::Sys(Arc::new(system::Rule { id: id.into(), metric_type: metric, strategy, threshold: t.f64bits() }))
        }
    }
}
