//! Metric-line cases (C18): MetricItem Display / from_string through the hook constructors.
//! case: 0 type ts pass block complete error avg_rt occupied conc nlen name_bytes*   (format, then parse back)
//!     | 1 nlen line_bytes*                                                           (parse an arbitrary line)
//! out : mode 0: llen line_bytes*  then parse result ; mode 1: parse result
//!       parse result: 0 (Err) | 1 type ts pass block complete error avg_rt occupied conc nlen name_bytes* ; -1 panic
use crate::util::*;
use sentinel_core::base::MetricItem;
use sentinel_core::verif::metric_item;

fn parse_out(line: &str, out: &mut Vec<i128>) {
    match guarded(|| MetricItem::from_string(line)) {
        None => out.push(-1),
        Some(Err(_)) => out.push(0),
        Some(Ok(i)) => {
            let (res, ty, ts, p, b, c, e, rt, occ, conc) = metric_item::fields(&i);
            out.extend([1, ty as i128, ts as i128, p as i128, b as i128, c as i128, e as i128, rt as i128, occ as i128, conc as i128]);
            out.push(res.len() as i128);
            out.extend(res.bytes().map(|x| x as i128));
        }
    }
}

pub fn run_case(t: &mut Toks) -> Vec<i128> {
    let mut out = Vec::new();
    let mode = t.u64();
    if mode == 0 {
        let (ty, ts, p, b, c, e, rt, occ, conc) =
            (t.u64() as u8, t.u64(), t.u64(), t.u64(), t.u64(), t.u64(), t.u64(), t.u64(), t.u32());
        let n = t.usize();
        let bytes: Vec<u8> = (0..n).map(|_| t.u64() as u8).collect();
        let name = String::from_utf8(bytes).expect("generator gives valid utf-8");
        let item = metric_item::make(name, ty, ts, p, b, c, e, rt, occ, conc);
        match guarded(|| item.to_string()) {
            None => out.push(-1),
            Some(line) => {
                out.push(line.len() as i128);
                out.extend(line.bytes().map(|x| x as i128));
                parse_out(&line, &mut out);
            }
        }
    } else {
        let n = t.usize();
        let bytes: Vec<u8> = (0..n).map(|_| t.u64() as u8).collect();
        let line = String::from_utf8(bytes).expect("generator gives valid utf-8");
        parse_out(&line, &mut out);
    }
    out
}
