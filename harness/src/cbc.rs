//! C16 cases (one process per case): threads build and complete entries on a resource guarded by one
//! circuit breaker under a forced interleaving of the breaker's scheduling points, on the virtual clock.
//! case: base_ms strategy retry min_req interval buckets max_rt thr_bits
//!       npre (B | X err | A dt)*                      sequential prelude (no scheduling)
//!       nthreads { nops (B other | X err)* }*  nsteps (tid dt_ms)* [F]
//!       a trailing F: no forced schedule, the threads run freely in parallel while a ticker advances the clock
//!       B other: other = 1 makes a slot after the breaker slot reject this entry (it passes the scheduling
//!       point "cb:oracle" first); prelude builds are never rejected
//! out : all_done ntrace (tid point)* ; nlog (kind a b c d)* ; final_state retry_rel
//!       log kinds: 1 transition (tid|-1, from, to, now_rel) + retry_rel in the next slot -> 6 numbers per event:
//!                  kind a b c d e ; 2 build (tid, admitted) ; 3 exit (tid, err, rt)
use crate::sched;
use crate::sched::point_code;
use crate::util::*;
use sentinel_core::base::{BaseSlot, BlockType, EntryContext, EntryStrongPtr, RuleCheckSlot, Snapshot, TokenResult};
use sentinel_core::verif::chain;
use std::cell::Cell;
use sentinel_core::circuitbreaker as cb;
use sentinel_core::verif::clock;
use sentinel_core::EntryBuilder;
use std::sync::{Arc, Mutex};

static LOG: Mutex<Vec<[i128; 6]>> = Mutex::new(Vec::new());
static BASE: Mutex<u64> = Mutex::new(0);
static BREAKER: Mutex<Option<Arc<dyn cb::CircuitBreakerTrait>>> = Mutex::new(None);

thread_local! { static REJECT: Cell<bool> = Cell::new(false); }

/// a slot after the breaker slot that rejects the entries marked for it
struct OracleSlot {}
impl BaseSlot for OracleSlot {
    fn order(&self) -> u32 {
        9000
    }
}
impl RuleCheckSlot for OracleSlot {
    fn check(&self, ctx: &mut EntryContext) -> TokenResult {
        if REJECT.with(|r| r.get()) {
            sentinel_core::verif::sched::point("cb:oracle");
            TokenResult::new_blocked(BlockType::Other(0))
        } else {
            ctx.result().clone()
        }
    }
}

fn st(s: cb::State) -> i128 {
    match s {
        cb::State::Closed => 0,
        cb::State::HalfOpen => 1,
        cb::State::Open => 2,
    }
}

fn tid() -> i128 {
    sched::current_tid().map(|t| t as i128).unwrap_or(-1)
}

fn rel(x: u64) -> i128 {
    let base = *BASE.lock().unwrap();
    if x == 0 {
        -1
    } else {
        x as i128 - base as i128
    }
}

fn transition(prev: cb::State, to: i128) {
    let now = sentinel_core::utils::curr_time_millis();
    let retry = BREAKER.lock().unwrap().as_ref().map(|b| b.next_retry_timestamp_ms()).unwrap_or(0);
    LOG.lock().unwrap().push([1, tid(), st(prev), to, rel(now), rel(retry)]);
}

struct Listener {}
impl cb::StateChangeListener for Listener {
    fn on_transform_to_closed(&self, prev: cb::State, _rule: Arc<cb::Rule>) {
        transition(prev, 0);
    }
    fn on_transform_to_open(&self, prev: cb::State, _rule: Arc<cb::Rule>, _s: Option<Arc<Snapshot>>) {
        transition(prev, 2);
    }
    fn on_transform_to_half_open(&self, prev: cb::State, _rule: Arc<cb::Rule>) {
        transition(prev, 1);
    }
    fn on_circuit_breaker_drop(&self, _prev: cb::State, _rule: Arc<cb::Rule>) {}
}

fn do_build(name: &String, other: bool, chain: &Arc<sentinel_core::base::SlotChain>, open: &mut Vec<(EntryStrongPtr, u64)>) {
    let t0 = sentinel_core::utils::curr_time_millis();
    REJECT.with(|r| r.set(other));
    let res = EntryBuilder::new(name.clone()).with_slot_chain(chain.clone()).build();
    REJECT.with(|r| r.set(false));
    match res {
        Ok(e) => {
            LOG.lock().unwrap().push([2, tid(), 1, 0, 0, 0]);
            open.push((e, t0));
        }
        Err(_) => LOG.lock().unwrap().push([2, tid(), 0, 0, 0, 0]),
    }
}

fn do_exit(err: u64, open: &mut Vec<(EntryStrongPtr, u64)>) {
    if let Some((e, t0)) = open.pop() {
        let t1 = sentinel_core::utils::curr_time_millis();
        if err == 1 {
            e.set_err(sentinel_core::Error::msg("biz error"));
        }
        e.exit();
        LOG.lock().unwrap().push([3, tid(), err as i128, (t1 - t0) as i128, 0, 0]);
    }
}

pub fn run_case(t: &mut Toks) -> Vec<i128> {
    cb::register_state_change_listeners(vec![Arc::new(Listener {})]);
    let mut out = Vec::new();
    let base = t.u64();
    *BASE.lock().unwrap() = base;
    clock::set_ms(base);
    let name = String::from("cbc_res");
    let (strat, retry, minr, iv, buckets, maxrt, thr) = (t.u64(), t.u32(), t.u64(), t.u32(), t.u32(), t.u64(), t.f64bits());
    let rule = Arc::new(cb::Rule {
        id: "B1".into(),
        resource: name.clone(),
        strategy: match strat {
            0 => cb::BreakerStrategy::SlowRequestRatio,
            1 => cb::BreakerStrategy::ErrorRatio,
            _ => cb::BreakerStrategy::ErrorCount,
        },
        retry_timeout_ms: retry,
        min_request_amount: minr,
        stat_interval_ms: iv,
        stat_sliding_window_bucket_count: buckets,
        max_allowed_rt_ms: maxrt,
        threshold: thr,
        ..Default::default()
    });
    let _ = cb::load_rules_of_resource(&name, vec![rule]);
    let bs = cb::get_breakers_of_resource(&name);
    if bs.len() != 1 {
        return vec![-7];
    }
    *BREAKER.lock().unwrap() = Some(bs[0].clone());
    let custom = Arc::new(chain::standard_plus(vec![Arc::new(OracleSlot {})], vec![]));
    // prelude
    let npre = t.usize();
    let mut open: Vec<(EntryStrongPtr, u64)> = Vec::new();
    for _ in 0..npre {
        match t.s().as_str() {
            "B" => do_build(&name, false, &custom, &mut open),
            "X" => do_exit(t.u64(), &mut open),
            _ => clock::advance_ns(t.u64() as i128 * 1_000_000),
        }
    }
    drop(open); // entries still held by the prelude stay in flight (dropping the handle does not exit)
    let nt = t.usize();
    let mut progs: Vec<Vec<(u64, u64)>> = Vec::new();
    for _ in 0..nt {
        let k = t.usize();
        let mut p = Vec::new();
        for _ in 0..k {
            match t.s().as_str() {
                "B" => p.push((0, t.u64())),
                _ => p.push((1, t.u64())),
            }
        }
        progs.push(p);
    }
    let ns = t.usize();
    let steps: Vec<(usize, u64)> = (0..ns).map(|_| (t.usize(), t.u64())).collect();
    let mut bodies: Vec<Box<dyn FnOnce() + Send>> = Vec::new();
    for prog in progs.into_iter() {
        let name = name.clone();
        let custom = custom.clone();
        bodies.push(Box::new(move || {
            let mut open: Vec<(EntryStrongPtr, u64)> = Vec::new();
            for (kind, err) in prog {
                if kind == 0 {
                    do_build(&name, err == 1, &custom, &mut open);
                } else {
                    do_exit(err, &mut open);
                }
            }
        }));
    }
    let sched_ids: Vec<usize> = steps.iter().map(|s| s.0).collect();
    let dts: Vec<u64> = steps.iter().map(|s| s.1).collect();
    let free = !t.done() && t.s() == "F";
    if free {
        // real concurrency: the threads run freely while a ticker advances the virtual clock; only the listener
        // events (delivered under the breaker's state lock) are meaningful in the log order
        let stop = Arc::new(std::sync::atomic::AtomicBool::new(false));
        let stop2 = stop.clone();
        let ticker = std::thread::spawn(move || {
            while !stop2.load(std::sync::atomic::Ordering::SeqCst) {
                clock::advance_ns(1_000_000);
                std::thread::sleep(std::time::Duration::from_micros(30));
            }
        });
        let barrier = Arc::new(std::sync::Barrier::new(bodies.len()));
        let hs: Vec<_> = bodies
            .into_iter()
            .map(|b| {
                let barrier = barrier.clone();
                std::thread::spawn(move || {
                    barrier.wait();
                    std::panic::catch_unwind(std::panic::AssertUnwindSafe(b)).is_ok()
                })
            })
            .collect();
        let ok = hs.into_iter().all(|h| h.join().unwrap_or(false));
        stop.store(true, std::sync::atomic::Ordering::SeqCst);
        let _ = ticker.join();
        out.push(ok as i128);
        out.push(0);
        let log = LOG.lock().unwrap().clone();
        out.push(log.len() as i128);
        for e in log {
            out.extend(e);
        }
        out.push(st(bs[0].current_state()));
        out.push(rel(bs[0].next_retry_timestamp_ms()));
        return out;
    }
    let (trace, all_done) = sched::run(
        bodies,
        &sched_ids,
        |i| {
            if dts[i] > 0 {
                clock::advance_ns(dts[i] as i128 * 1_000_000);
            }
        },
        |n| n.starts_with("cb:") || n == "start",
    );
    out.push(all_done as i128);
    out.push(trace.len() as i128);
    for (tid, p) in &trace {
        out.extend([*tid as i128, point_code(p)]);
    }
    let log = LOG.lock().unwrap().clone();
    out.push(log.len() as i128);
    for e in log {
        out.extend(e);
    }
    out.push(st(bs[0].current_state()));
    out.push(rel(bs[0].next_retry_timestamp_ms()));
    out
}
