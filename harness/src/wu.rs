//! Warm-up cases: a resource guarded by one warm-up reject flow rule (default statistic), on the
//! virtual clock; serves C08.
//! case: tag base_ms thr_bits cold period   ops: B batch | A dt_ms | T
//! out : nrules then per op: B -> 1 admitted (exited at once) | 0 cur (blocked, the count the check saw) ; A -> 3 ; T -> 4 bits ; panic -> -1
use crate::util::*;
use sentinel_core::verif::clock;
use sentinel_core::{flow, EntryBuilder};
use std::sync::Arc;

pub fn run_case(t: &mut Toks) -> Vec<i128> {
    let mut out = Vec::new();
    let tag = t.s();
    let base = t.u64();
    clock::set_ms(base);
    let name = format!("w{}", tag);
    let (thr, cold, period) = (t.f64bits(), t.u32(), t.u32());
    let rule = Arc::new(flow::Rule {
        id: "W1".into(),
        resource: name.clone(),
        threshold: thr,
        calculate_strategy: flow::CalculateStrategy::WarmUp,
        control_strategy: flow::ControlStrategy::Reject,
        warm_up_period_sec: period,
        warm_up_cold_factor: cold,
        ..Default::default()
    });
    if guarded(|| flow::load_rules_of_resource(&name, vec![rule])).is_none() {
        return vec![-9];
    }
    let ctls = flow::get_traffic_controller_list_for(&name);
    out.push(ctls.len() as i128);
    if ctls.len() != 1 {
        let _ = guarded(|| flow::clear_rules_of_resource(&name));
        return out;
    }
    if std::env::var("VH_DEBUG").is_ok() {
        eprintln!("{:?}", ctls[0].get_calculator().lock().unwrap());
    }
    while !t.done() {
        match t.s().as_str() {
            "B" => {
                let batch = t.u32();
                let b = EntryBuilder::new(name.clone()).with_batch_count(batch);
                match guarded(|| b.build()) {
                    None => {
                        out.push(-1);
                        break;
                    }
                    Some(Ok(e)) => {
                        e.exit();
                        out.push(1);
                    }
                    Some(Err(e)) => out.extend([0, crate::world::snapshot_of_msg(&e.to_string())]),
                }
            }
            "A" => {
                clock::advance_ns(t.u64() as i128 * 1_000_000);
                out.push(3);
            }
            "T" => {
                let c = ctls[0].clone();
                match guarded(|| c.get_calculator().lock().unwrap().calculate_allowed_threshold(1, 0)) {
                    Some(x) => out.extend([4, x.to_bits() as i128]),
                    None => {
                        out.push(-1);
                        break;
                    }
                }
            }
            x => panic!("bad op {}", x),
        }
    }
    let _ = guarded(|| flow::clear_rules_of_resource(&name));
    out
}
