//! First touch (C14): several real threads build and exit one entry each on a brand-new resource at the
//! same moment, for many rounds (a fresh resource per round).  After each round the node the map holds must be the
//! node every thread got, with in-flight 0 and pass = complete = number of threads (the clock is frozen).
//! case: nthreads rounds        out: rounds bad_rounds
use crate::util::*;
use sentinel_core::base::{ConcurrencyStat, MetricEvent, ReadStat};
use sentinel_core::verif::clock;
use sentinel_core::{stat, EntryBuilder};
use std::sync::{Arc, Barrier};

pub fn run_case(t: &mut Toks) -> Vec<i128> {
    let (nt, rounds) = (t.usize(), t.usize());
    clock::set_ms(1_700_000_000_250);
    let mut bad = 0;
    for r in 0..rounds {
        let name = format!("ft_{}_{}", std::process::id(), r);
        let barrier = Arc::new(Barrier::new(nt));
        let hs: Vec<_> = (0..nt)
            .map(|_| {
                let name = name.clone();
                let barrier = barrier.clone();
                std::thread::spawn(move || {
                    barrier.wait();
                    match EntryBuilder::new(name).build() {
                        Ok(e) => {
                            let p = e.context().read().unwrap().stat_node().map(|n| Arc::as_ptr(&n) as *const u8 as usize).unwrap_or(0);
                            e.exit();
                            p
                        }
                        Err(_) => 0,
                    }
                })
            })
            .collect();
        let ptrs: Vec<usize> = hs.into_iter().map(|h| h.join().unwrap_or(0)).collect();
        let ok = match stat::get_resource_node(&name) {
            Some(n) => {
                let p = Arc::as_ptr(&n) as *const u8 as usize;
                ptrs.iter().all(|x| *x == p)
                    && n.current_concurrency() == 0
                    && n.sum(MetricEvent::Pass) == nt as u64
                    && n.sum(MetricEvent::Complete) == nt as u64
            }
            None => false,
        };
        if !ok {
            bad += 1;
        }
    }
    vec![rounds as i128, bad]
}
